//! E1: explicit-state search over input histories (own parallel BFS, or stateright). Every reachable state within the
//! bound is generated once (stateright deduplicates by state hash) and the invariant, which
//! executes the real blockwatch code on the input the state denotes, is evaluated in every one of
//! them. Failures are collected on the side (the stateright property itself never "discovers"
//! anything, otherwise the checker would stop at the first counterexample and known findings would
//! hide everything behind them).

use crate::core::{Phase, Sink};
use stateright::{Checker, Model, Property};
use std::fmt::Debug;
use std::hash::Hash;
use std::sync::Arc;
use std::sync::atomic::{AtomicU64, Ordering};

pub trait Space: Send + Sync + 'static {
    type State: Clone + Debug + Hash + Eq + Send + Sync + 'static;
    fn init(&self) -> Vec<Self::State>;
    /// Successor states (one per alphabet element applicable in `state`). A state at the depth
    /// bound has no successors.
    fn succ(&self, state: &Self::State) -> Vec<Self::State>;
    /// Runs the real code on the input `state` denotes and compares with the reference.
    fn check(&self, state: &Self::State, sink: &Sink);
}

struct Wrapper<S: Space> {
    space: Arc<S>,
    sink: Arc<Sink>,
    transitions: Arc<AtomicU64>,
}

thread_local! {
    /// The last expansion computed on this thread: stateright asks for the actions of a state and
    /// then for the successor of each action, one by one.
    static EXPANSION: std::cell::RefCell<Option<Box<dyn std::any::Any>>> = const { std::cell::RefCell::new(None) };
}

impl<S: Space> Wrapper<S> {
    fn with_expansion<R>(&self, state: &S::State, f: impl FnOnce(&Vec<S::State>) -> R) -> R {
        EXPANSION.with(|cache| {
            let mut cache = cache.borrow_mut();
            let hit = cache
                .as_ref()
                .and_then(|b| b.downcast_ref::<(S::State, Vec<S::State>)>())
                .is_some_and(|(s, _)| s == state);
            if !hit {
                *cache = Some(Box::new((state.clone(), self.space.succ(state))));
            }
            let (_, succ) = cache.as_ref().unwrap().downcast_ref::<(S::State, Vec<S::State>)>().unwrap();
            f(succ)
        })
    }
}

impl<S: Space> Model for Wrapper<S> {
    type State = S::State;
    type Action = usize;

    fn init_states(&self) -> Vec<Self::State> {
        self.space.init()
    }

    fn actions(&self, state: &Self::State, actions: &mut Vec<Self::Action>) {
        let count = self.with_expansion(state, |succ| succ.len());
        actions.extend(0..count);
    }

    fn next_state(&self, last_state: &Self::State, action: Self::Action) -> Option<Self::State> {
        self.transitions.fetch_add(1, Ordering::Relaxed);
        self.with_expansion(last_state, |succ| succ.get(action).cloned())
    }

    // stateright calls `next_steps`/`next_states` internally depending on the checker; make both
    // compute the successor list once.
    fn next_steps(&self, last_state: &Self::State) -> Vec<(Self::Action, Self::State)> {
        let succ = self.space.succ(last_state);
        self.transitions.fetch_add(succ.len() as u64, Ordering::Relaxed);
        succ.into_iter().enumerate().collect()
    }

    fn next_states(&self, last_state: &Self::State) -> Vec<Self::State> {
        let succ = self.space.succ(last_state);
        self.transitions.fetch_add(succ.len() as u64, Ordering::Relaxed);
        succ
    }

    fn properties(&self) -> Vec<Property<Self>> {
        vec![Property::always("reference agrees", |model: &Self, state| {
            model.space.check(state, &model.sink);
            true
        })]
    }
}

/// Explores `space` completely and returns what was covered.
///
/// Default engine: a level-synchronous parallel breadth-first search written for this harness
/// (work is handed out state by state, so spaces whose invariant is expensive — a git diff, a CLI
/// run — still use every core; stateright hands out blocks of 1500 states). Visited states are
/// kept exactly (no fingerprint collisions). `BWMC_ENGINE=stateright` selects the stateright
/// checker instead; the thorough tiers cross-check the state counts of the two engines.
pub fn explore<S: Space>(name: &str, bound: &str, space: S, sink: &Arc<Sink>, threads: usize, dfs: bool) -> Phase {
    if std::env::var("BWMC_ENGINE").as_deref() == Ok("stateright") {
        return explore_stateright(name, bound, space, sink, threads, dfs);
    }
    let threads = threads.max(1);
    let space = Arc::new(space);
    let mut visited: std::collections::HashSet<S::State> = std::collections::HashSet::new();
    let mut frontier: Vec<S::State> = Vec::new();
    for s in space.init() {
        if visited.insert(s.clone()) {
            frontier.push(s);
        }
    }
    let (mut states, mut transitions, mut depth) = (0u64, 0u64, 0u64);
    while !frontier.is_empty() {
        depth += 1;
        states += frontier.len() as u64;
        let next_index = std::sync::atomic::AtomicUsize::new(0);
        let chunk = (frontier.len() / (threads * 16)).clamp(1, 256);
        let produced: Vec<Vec<S::State>> = std::thread::scope(|scope| {
            let handles: Vec<_> = (0..threads.min(frontier.len()))
                .map(|_| {
                    scope.spawn(|| {
                        let mut local = Vec::new();
                        loop {
                            let start = next_index.fetch_add(chunk, Ordering::Relaxed);
                            if start >= frontier.len() {
                                break;
                            }
                            for state in &frontier[start..(start + chunk).min(frontier.len())] {
                                space.check(state, sink);
                                local.extend(space.succ(state));
                            }
                        }
                        local
                    })
                })
                .collect();
            handles.into_iter().map(|h| h.join().expect("explorer thread")).collect()
        });
        let mut next = Vec::new();
        for batch in produced {
            transitions += batch.len() as u64;
            for s in batch {
                if visited.insert(s.clone()) {
                    next.push(s);
                }
            }
        }
        frontier = next;
    }
    // Thorough tiers: count the same space with the stateright checker (no invariant, pure
    // reachability) and require the same number of unique states.
    if std::env::var_os("BWMC_CROSSCHECK").is_some() && states <= 300_000 {
        let counter = CountOnly { space: Arc::clone(&space) };
        let checker = counter.checker().threads(threads).spawn_bfs().join();
        let other = checker.unique_state_count() as u64;
        if other != states {
            sink.machinery(format!("engine cross-check failed for phase `{name}`: own BFS visited {states} states, stateright {other}"));
        } else {
            eprintln!("[cross-check] {name}: {states} states under both engines");
        }
    }
    // `depth` counted levels including the root; report the longest path in transitions.
    Phase { name: name.to_string(), states, transitions, max_depth: depth.saturating_sub(1), exhaustive: true, bound: bound.to_string() }
}

/// The bare transition system of a space (for counting under stateright).
struct CountOnly<S: Space> {
    space: Arc<S>,
}

impl<S: Space> Model for CountOnly<S> {
    type State = S::State;
    type Action = usize;
    fn init_states(&self) -> Vec<Self::State> {
        self.space.init()
    }
    fn actions(&self, state: &Self::State, actions: &mut Vec<Self::Action>) {
        actions.extend(0..self.space.succ(state).len());
    }
    fn next_state(&self, last_state: &Self::State, action: Self::Action) -> Option<Self::State> {
        self.space.succ(last_state).into_iter().nth(action)
    }
    fn properties(&self) -> Vec<Property<Self>> {
        vec![Property::always("count", |_: &Self, _| true)]
    }
}

/// The same exploration with the stateright checker.
pub fn explore_stateright<S: Space>(
    name: &str,
    bound: &str,
    space: S,
    sink: &Arc<Sink>,
    threads: usize,
    dfs: bool,
) -> Phase {
    let transitions = Arc::new(AtomicU64::new(0));
    let wrapper = Wrapper {
        space: Arc::new(space),
        sink: Arc::clone(sink),
        transitions: Arc::clone(&transitions),
    };
    let dfs = match std::env::var("BWMC_SEARCH").as_deref() { Ok("dfs") => true, Ok("bfs") => false, _ => dfs };
    let builder = wrapper.checker().threads(threads.max(1));
    let (states, max_depth, done) = if dfs {
        let checker = builder.spawn_dfs().join();
        (checker.unique_state_count(), checker.max_depth(), checker.is_done())
    } else {
        let checker = builder.spawn_bfs().join();
        (checker.unique_state_count(), checker.max_depth(), checker.is_done())
    };
    Phase {
        name: name.to_string(),
        states: states as u64,
        transitions: transitions.load(Ordering::Relaxed),
        max_depth: max_depth as u64,
        exhaustive: done,
        bound: bound.to_string(),
    }
}

/// A ready-made space: all sequences over `0..alphabet` of length `0..=max_len`.
pub struct Sequences<F: Fn(&[u8], &Sink) + Send + Sync + 'static> {
    pub alphabet: u8,
    pub max_len: usize,
    pub check: F,
}

impl<F: Fn(&[u8], &Sink) + Send + Sync + 'static> Space for Sequences<F> {
    type State = Vec<u8>;
    fn init(&self) -> Vec<Vec<u8>> {
        vec![Vec::new()]
    }
    fn succ(&self, state: &Vec<u8>) -> Vec<Vec<u8>> {
        if state.len() >= self.max_len {
            return Vec::new();
        }
        (0..self.alphabet)
            .map(|a| {
                let mut next = state.clone();
                next.push(a);
                next
            })
            .collect()
    }
    fn check(&self, state: &Vec<u8>, sink: &Sink) {
        (self.check)(state, sink)
    }
}

/// A flat space: a list of independent cases (a grid). Modelled as a root state with one
/// transition per case so that the same engine counts and deduplicates them.
pub struct Grid<T, F>
where
    T: Clone + Debug + Hash + Eq + Send + Sync + 'static,
    F: Fn(&T, &Sink) + Send + Sync + 'static,
{
    pub cases: Vec<T>,
    pub check: F,
}

impl<T, F> Space for Grid<T, F>
where
    T: Clone + Debug + Hash + Eq + Send + Sync + 'static,
    F: Fn(&T, &Sink) + Send + Sync + 'static,
{
    type State = Option<T>;
    fn init(&self) -> Vec<Option<T>> {
        vec![None]
    }
    fn succ(&self, state: &Option<T>) -> Vec<Option<T>> {
        match state {
            None => self.cases.iter().cloned().map(Some).collect(),
            Some(_) => Vec::new(),
        }
    }
    fn check(&self, state: &Option<T>, sink: &Sink) {
        if let Some(case) = state {
            (self.check)(case, sink)
        }
    }
}
