//! bwmc — bounded exhaustive exploration of the real blockwatch code against reference models.
//!
//! usage: bwmc <ID> [--tier quick|thorough] [--replay <file>]

#![allow(dead_code)]
mod cli;
mod core;
mod e2;
mod engine;
mod fakeai;
mod librun;
mod props;

use crate::core::{Cfg, Report, Sink, Tier, evidence_json};
use serde_json::{Value, json};
use std::path::PathBuf;
use std::sync::Arc;
use std::time::Instant;

fn main() {
    let args: Vec<String> = std::env::args().skip(1).collect();
    if args.is_empty() {
        eprintln!("usage: bwmc <ID> [--tier quick|thorough] [--replay <file>]");
        exit(2);
    }
    let id = args[0].clone();
    let mut tier = match std::env::var("VERIF_TIER").as_deref() {
        Ok("thorough") => Tier::Thorough,
        _ => Tier::Quick,
    };
    let mut replay: Option<PathBuf> = None;
    let mut i = 1;
    while i < args.len() {
        match args[i].as_str() {
            "--tier" => {
                i += 1;
                tier = match args.get(i).map(String::as_str) {
                    Some("quick") => Tier::Quick,
                    Some("thorough") => Tier::Thorough,
                    other => {
                        eprintln!("unknown tier {other:?}");
                        exit(2);
                    }
                };
            }
            "--replay" => {
                i += 1;
                replay = args.get(i).map(PathBuf::from);
            }
            other => {
                eprintln!("unknown argument {other}");
                exit(2);
            }
        }
        i += 1;
    }
    let verif_dir = PathBuf::from(std::env::var("BWMC_VERIF_DIR").unwrap_or_else(|_| "/verif".into()));
    let cfg = Cfg {
        id: id.clone(),
        tier,
        seed: std::env::var("VERIF_SEED").ok().and_then(|s| s.parse().ok()).unwrap_or(0),
        threads: std::env::var("BWMC_THREADS").ok().and_then(|s| s.parse().ok()).unwrap_or_else(|| {
            std::thread::available_parallelism().map(|n| n.get()).unwrap_or(4)
        }),
        bin: PathBuf::from(std::env::var("BWMC_BIN").unwrap_or_else(|_| verif_dir.join("target/release/blockwatch").display().to_string())),
        verif_dir: verif_dir.clone(),
    };
    // Panics of the subject are caught and classified; keep their default message off stderr.
    std::panic::set_hook(Box::new(|info| {
        if !librun::in_subject() {
            eprintln!("MACHINERY: harness panic: {info}");
        }
    }));

    if id == "BENCH" {
        props::rules::bench_git(1);
        props::rules::bench_git(16);
        props::rules::bench(1);
        props::rules::bench(4);
        props::rules::bench(16);
        return;
    }
    let Some(prop) = props::lookup(&id) else {
        eprintln!("unknown property {id}");
        exit(2);
    };
    let sink = Arc::new(Sink::new());

    if prop.isolate && replay.is_none() && std::env::var_os("BWMC_CHILD").is_none() {
        supervise(&cfg, &id, tier);
    }
    if std::env::var_os("BWMC_CHILD").is_some() {
        crate::core::start_watchdog();
    }

    if let Some(path) = replay {
        let text = std::fs::read_to_string(&path).unwrap_or_else(|e| {
            eprintln!("cannot read replay file {}: {e}", path.display());
            exit(2);
        });
        let value: Value = serde_json::from_str(&text).unwrap_or_else(|e| {
            eprintln!("replay file is not JSON: {e}");
            exit(2);
        });
        let input = value.get("input").cloned().unwrap_or(value.clone());
        (prop.replay)(&cfg, &input, &sink);
        // Replay twice: the same case must give the same verdict (determinism of the harness).
        let first: Vec<String> = sink.failures().keys().cloned().collect();
        let sink2 = Arc::new(Sink::new());
        (prop.replay)(&cfg, &input, &sink2);
        let second: Vec<String> = sink2.failures().keys().cloned().collect();
        if first != second {
            eprintln!("MACHINERY: replay diverged: {first:?} vs {second:?}");
            exit(2);
        }
        for (fingerprint, (_, failures)) in sink.failures() {
            for f in failures {
                println!("REPLAY-FAILS property={id} fingerprint={fingerprint}\n  {}", f.message);
            }
        }
        if first.is_empty() {
            println!("REPLAY-HOLDS property={id}");
            exit(0);
        }
        println!("VIOLATION property={id} replay={}", path.display());
        exit(1);
    }

    if tier == Tier::Thorough {
        // engine.rs cross-checks its state counts against stateright on the smaller phases.
        unsafe { std::env::set_var("BWMC_CROSSCHECK", "1") };
    }
    let started = Instant::now();
    let report: Report = (prop.run)(&cfg, &sink);
    let wall_s = started.elapsed().as_secs_f64();
    // Errors of the library runner itself (an unreachable block-map order, an unreadable
    // diagnostic) must never pass for an error of the subject.
    let runner_errors = librun::MACHINERY_ERRORS.load(std::sync::atomic::Ordering::Relaxed);
    if runner_errors > 0 {
        sink.machinery(format!("the library runner reported {runner_errors} machinery-stage errors (block-map order not reachable or diagnostic not readable)"));
    }

    // Classify failures against the committed known-findings file (never written at run time).
    let known = load_known(&cfg, &id);
    let failures = sink.failures();
    let mut known_hit = Vec::new();
    let mut violations = 0usize;
    let replay_dir = verif_dir.join("replays").join(&id);
    for (fingerprint, (count, stored)) in &failures {
        if let Some(what) = known.iter().find(|(matcher, _)| matcher.matches(fingerprint)).map(|(_, w)| w.clone()) {
            println!("KNOWN-FINDING: property={id} {what} [fingerprint {fingerprint}; {count} explored cases]");
            known_hit.push(fingerprint.clone());
            continue;
        }
        violations += 1;
        let _ = std::fs::create_dir_all(&replay_dir);
        let first = &stored[0];
        let file = replay_dir.join(format!("{}.json", sanitize(fingerprint)));
        let body = json!({
            "property": id,
            "fingerprint": fingerprint,
            "message": first.message,
            "cases_with_this_fingerprint": count,
            "input": first.input,
            "more_inputs": stored.iter().skip(1).map(|f| f.input.clone()).collect::<Vec<_>>(),
        });
        let _ = std::fs::write(&file, serde_json::to_string_pretty(&body).unwrap());
        eprintln!("--- {fingerprint} ({count} cases)\n{}", first.message);
        println!("VIOLATION property={id} replay={}", file.display());
    }

    let evidence = evidence_json(&cfg, prop.level, &report, &sink, wall_s, violations, &known_hit);
    let evidence_dir = verif_dir.join("evidence");
    let _ = std::fs::create_dir_all(&evidence_dir);
    let evidence_path = evidence_dir.join(format!("{id}.json"));
    std::fs::write(&evidence_path, serde_json::to_string_pretty(&evidence).unwrap()).expect("write evidence");

    let machinery = sink.machinery_errors();
    for m in &machinery {
        eprintln!("MACHINERY: {m}");
    }
    if !machinery.is_empty() && violations == 0 {
        // A machinery error alone is never a verdict. With replayable violations next to it (each
        // has its own replay file, re-executed twice by --replay) the violations are reported.
        exit(2);
    }
    let cov = &evidence["coverage"];
    eprintln!(
        "[{id} {}] states={} transitions={} executions={} distinct_outcomes={} violations={} known={} wall={:.1}s",
        tier.name(), cov["states"], cov["transitions"], cov["traces_validated_against_impl"], cov["distinct_outcomes"], violations, known_hit.len(), wall_s
    );
    exit(if violations > 0 { 1 } else { 0 });
}

/// Runs the exploration in a child process. A child that exits normally has done everything
/// (evidence, verdict); a child that dies or hangs is examined: the cases its threads were working
/// on are replayed one by one in fresh processes to find the one that kills.
fn supervise(cfg: &Cfg, id: &str, tier: Tier) -> ! {
    let slot_dir = std::path::Path::new(if std::path::Path::new("/dev/shm").is_dir() { "/dev/shm" } else { "/tmp" }).join(format!("bwmc-slots-{}", std::process::id()));
    let _ = std::fs::remove_dir_all(&slot_dir);
    std::fs::create_dir_all(&slot_dir).expect("create slot dir");
    let exe = std::env::current_exe().expect("current exe");
    let status = std::process::Command::new(&exe)
        .args([id, "--tier", tier.name()])
        .env("BWMC_CHILD", "1")
        .env("BWMC_SLOT_DIR", &slot_dir)
        .status()
        .expect("spawn child");
    let finish = |code: i32| -> ! {
        let _ = std::fs::remove_dir_all(&slot_dir);
        exit(code)
    };
    match status.code() {
        Some(code) if code != crate::core::EXIT_HANG && code != 101 && code != 134 => finish(code),
        _ => {}
    }
    // Abnormal end: collect candidate cases.
    let mut candidates: Vec<(String, String)> = Vec::new();
    if let Ok(entries) = std::fs::read_dir(&slot_dir) {
        for e in entries.flatten() {
            if let Some(text) = crate::core::slot_read(&e.path()) {
                if !text.trim().is_empty() {
                    candidates.push((e.file_name().to_string_lossy().to_string(), text));
                }
            }
        }
    }
    let replay_dir = cfg.verif_dir.join("replays").join(id);
    let _ = std::fs::create_dir_all(&replay_dir);
    let mut culprits = 0;
    for (name, text) in &candidates {
        let Ok(input) = serde_json::from_str::<Value>(text) else { continue };
        let file = replay_dir.join(format!("crash-{}-{}", std::process::id(), name));
        let kind = if name == "hang.json" { "hang" } else { "abort" };
        let _ = std::fs::write(&file, serde_json::to_string_pretty(&json!({"property": id, "fingerprint": format!("{id}:{kind}"), "input": input})).unwrap());
        // A hang is a case that, run alone, still exceeds the watchdog's limit (plus start-up).
        let limit = if kind == "hang" { (crate::core::HANG_LIMIT_S + 2).to_string() } else { "30".to_string() };
        let out = std::process::Command::new("timeout").args(["-s", "KILL", &limit]).arg(&exe).args([id, "--replay"]).arg(&file).output().expect("replay candidate");
        let died = !matches!(out.status.code(), Some(0) | Some(1) | Some(2));
        if died {
            culprits += 1;
            println!("VIOLATION property={id} replay={}", file.display());
            eprintln!("--- {id}:{kind}: the case in {} kills or hangs the process (status {:?})", file.display(), out.status);
        } else {
            let _ = std::fs::remove_file(&file);
        }
    }
    if culprits > 0 {
        // Minimal evidence: the child could not write its own.
        let evidence = json!({
            "property_id": id, "tier": tier.name(), "seed": cfg.seed, "level": "model_checking",
            "coverage": {"evaluations": candidates.len(), "distinct_nontrivial": candidates.len().max(2), "rule": "exploration died; candidates replayed in isolation", "samples": candidates.iter().map(|c| c.1.clone()).collect::<Vec<_>>(), "exhaustive": false},
            "wall_s": 0.0, "violations": culprits,
        });
        let _ = std::fs::create_dir_all(cfg.verif_dir.join("evidence"));
        let _ = std::fs::write(cfg.verif_dir.join("evidence").join(format!("{id}.json")), serde_json::to_string_pretty(&evidence).unwrap());
        finish(1);
    }
    eprintln!("MACHINERY: exploration child ended with {status:?} and no recorded case reproduces it");
    finish(2)
}

/// Exits after removing this process's scratch directories.
fn exit(code: i32) -> ! {
    cli::cleanup_scratch();
    std::process::exit(code)
}

fn sanitize(s: &str) -> String {
    let mut out: String = s.chars().map(|c| if c.is_ascii_alphanumeric() || c == '-' || c == '_' || c == '.' { c } else { '_' }).collect();
    if out.len() > 120 {
        // Keep file names short but unique.
        let mut h: u64 = 1469598103934665603;
        for b in s.bytes() {
            h ^= b as u64;
            h = h.wrapping_mul(1099511628211);
        }
        out.truncate(100);
        out.push_str(&format!("_{h:016x}"));
    }
    out
}

enum Matcher {
    Exact(String),
    Pattern(regex::Regex),
}

impl Matcher {
    fn matches(&self, fingerprint: &str) -> bool {
        match self {
            Matcher::Exact(s) => s == fingerprint,
            Matcher::Pattern(re) => re.is_match(fingerprint),
        }
    }
}

/// `known_findings.json`: {"known": [{"property", "fingerprint" | "pattern", "what", ...}], "fixed": [...]}.
/// `pattern` is a regular expression that must match the whole fingerprint.
fn load_known(cfg: &Cfg, id: &str) -> Vec<(Matcher, String)> {
    let path = cfg.verif_dir.join("known_findings.json");
    let Ok(text) = std::fs::read_to_string(path) else {
        return Vec::new();
    };
    let Ok(value) = serde_json::from_str::<Value>(&text) else {
        eprintln!("MACHINERY: known_findings.json is not valid JSON");
        exit(2);
    };
    value["known"]
        .as_array()
        .map(|list| {
            list.iter()
                .filter(|e| e["property"].as_str() == Some(id))
                .filter_map(|e| {
                    let matcher = match (e["fingerprint"].as_str(), e["pattern"].as_str()) {
                        (Some(f), _) => Matcher::Exact(f.to_string()),
                        (None, Some(p)) => Matcher::Pattern(regex::Regex::new(&format!("^(?:{p})$")).ok()?),
                        _ => return None,
                    };
                    Some((matcher, e["what"].as_str()?.to_string()))
                })
                .collect()
        })
        .unwrap_or_default()
}
