//! CliRunner: scratch repositories, the real `blockwatch` binary, and real `git`.

use crate::librun::{Diag, diag_from_value};
use serde_json::Value;
use std::io::Write;
use std::path::{Path, PathBuf};
use std::process::{Command, Stdio};
use std::sync::atomic::{AtomicU64, Ordering};

static COUNTER: AtomicU64 = AtomicU64::new(0);

fn scratch_base() -> PathBuf {
    let shm = Path::new("/dev/shm");
    if shm.is_dir() {
        shm.to_path_buf()
    } else {
        std::env::temp_dir()
    }
}

/// Removes every scratch directory of this process (statics and thread-locals of the main
/// thread are not dropped at exit).
pub fn cleanup_scratch() {
    let prefix = format!("bwmc-{}-", std::process::id());
    if let Ok(entries) = std::fs::read_dir(scratch_base()) {
        for e in entries.flatten() {
            if e.file_name().to_string_lossy().starts_with(&prefix) {
                let _ = std::fs::remove_dir_all(e.path());
            }
        }
    }
}

/// A scratch directory removed on drop.
pub struct Scratch {
    pub dir: PathBuf,
}

impl Scratch {
    pub fn new(tag: &str) -> Self {
        let n = COUNTER.fetch_add(1, Ordering::Relaxed);
        let dir = scratch_base().join(format!("bwmc-{}-{}-{}", std::process::id(), tag, n));
        let _ = std::fs::remove_dir_all(&dir);
        std::fs::create_dir_all(&dir).expect("create scratch dir");
        Self { dir }
    }
    /// A scratch directory that blockwatch accepts as a repository root.
    pub fn repo(tag: &str) -> Self {
        let s = Self::new(tag);
        std::fs::create_dir_all(s.dir.join(".git")).expect("create .git");
        s
    }
    pub fn path(&self, rel: &str) -> PathBuf {
        self.dir.join(rel)
    }
    pub fn write(&self, rel: &str, content: &str) {
        let p = self.dir.join(rel);
        if let Some(parent) = p.parent() {
            std::fs::create_dir_all(parent).expect("create parent dir");
        }
        std::fs::write(&p, content).expect("write scratch file");
    }
    pub fn write_bytes(&self, rel: &str, content: &[u8]) {
        let p = self.dir.join(rel);
        if let Some(parent) = p.parent() {
            std::fs::create_dir_all(parent).expect("create parent dir");
        }
        std::fs::write(&p, content).expect("write scratch file");
    }
    pub fn remove(&self, rel: &str) {
        let _ = std::fs::remove_file(self.dir.join(rel));
    }
    /// Removes everything except `.git`.
    pub fn clear(&self) {
        if let Ok(entries) = std::fs::read_dir(&self.dir) {
            for e in entries.flatten() {
                if e.file_name() == ".git" {
                    continue;
                }
                let p = e.path();
                if p.is_dir() {
                    let _ = std::fs::remove_dir_all(p);
                } else {
                    let _ = std::fs::remove_file(p);
                }
            }
        }
    }
}

impl Drop for Scratch {
    fn drop(&mut self) {
        let _ = std::fs::remove_dir_all(&self.dir);
    }
}

#[derive(Clone, Debug)]
pub struct CliRun {
    /// Exit code; `None` when killed by a signal.
    pub code: Option<i32>,
    pub stdout: String,
    pub stderr: String,
    pub timed_out: bool,
}

impl CliRun {
    pub fn panicked(&self) -> bool {
        self.stderr.contains("panicked at") || matches!(self.code, Some(101) | Some(134)) || (self.code.is_none() && !self.timed_out)
    }
    /// stderr as the diagnostics object `{file: [diagnostic]}`.
    pub fn diags(&self) -> Result<Vec<Diag>, String> {
        if self.stderr.trim().is_empty() {
            return Ok(Vec::new());
        }
        let value: Value = serde_json::from_str(self.stderr.trim())
            .map_err(|e| format!("stderr is not one JSON object: {e}: {}", self.stderr))?;
        let object = value.as_object().ok_or("stderr JSON is not an object")?;
        let mut result = Vec::new();
        for (file, list) in object {
            for d in list.as_array().ok_or("diagnostics of a file are not a list")? {
                result.push(diag_from_value(file, d).ok_or_else(|| format!("unreadable diagnostic {d}"))?);
            }
        }
        Ok(result)
    }
    pub fn summary(&self) -> Value {
        serde_json::json!({"code": self.code, "stdout": truncate(&self.stdout), "stderr": truncate(&self.stderr), "timed_out": self.timed_out})
    }
}

fn truncate(s: &str) -> String {
    if s.len() > 1500 {
        let mut end = 1500;
        while !s.is_char_boundary(end) {
            end -= 1;
        }
        format!("{}…", &s[..end])
    } else {
        s.to_string()
    }
}

/// Absolute path of a tool (an absolute program path lets std use posix_spawn() even though PATH
/// is set for the child; a relative one forces fork(), which is slow in a big process).
fn tool(name: &str) -> PathBuf {
    for dir in ["/usr/bin", "/bin", "/usr/local/bin"] {
        let p = Path::new(dir).join(name);
        if p.is_file() {
            return p;
        }
    }
    PathBuf::from(name)
}

fn hermetic(cmd: &mut Command) {
    cmd.env_clear();
    cmd.env("PATH", "/usr/local/bin:/usr/bin:/bin");
    cmd.env("HOME", "/nonexistent-bwmc-home");
    cmd.env("XDG_CONFIG_HOME", "/nonexistent-bwmc-home");
    cmd.env("GIT_CONFIG_NOSYSTEM", "1");
    cmd.env("GIT_CONFIG_GLOBAL", "/dev/null");
    cmd.env("LC_ALL", "C");
}

/// Runs the real binary. `stdin = None` is scan ("terminal") mode, exactly as the repository's
/// own integration tests select it; `Some(diff)` pipes the diff.
pub fn blockwatch(
    bin: &Path,
    cwd: &Path,
    args: &[&str],
    stdin: Option<&str>,
    env: &[(&str, &str)],
    timeout_s: u32,
) -> CliRun {
    // `env -C` instead of `Command::current_dir`: the latter forces fork() instead of
    // posix_spawn(), which is slow and serialised in a big multi-threaded process.
    let mut cmd = Command::new(tool("timeout"));
    cmd.arg("-s").arg("KILL").arg(timeout_s.to_string()).arg(tool("env")).arg("-C").arg(cwd).arg(bin);
    cmd.args(args);
    hermetic(&mut cmd);
    if stdin.is_none() {
        cmd.env("BLOCKWATCH_TERMINAL_MODE", "1");
    }
    for (k, v) in env {
        cmd.env(k, v);
    }
    cmd.stdin(if stdin.is_some() { Stdio::piped() } else { Stdio::null() });
    cmd.stdout(Stdio::piped());
    cmd.stderr(Stdio::piped());
    let mut child = cmd.spawn().expect("spawn blockwatch");
    if let Some(text) = stdin {
        let mut pipe = child.stdin.take().expect("stdin pipe");
        // The diffs used here are far smaller than a pipe buffer; a subject that exits early
        // closes the pipe, which is fine.
        let _ = pipe.write_all(text.as_bytes());
    }
    let output = child.wait_with_output().expect("wait for blockwatch");
    let code = output.status.code();
    CliRun {
        code,
        stdout: String::from_utf8_lossy(&output.stdout).to_string(),
        stderr: String::from_utf8_lossy(&output.stderr).to_string(),
        // `timeout -s KILL` exits with 137 when it had to kill — or, as GNU timeout does, passes
        // the signal on to itself, so that the status is "killed by signal 9".
        timed_out: code == Some(137) || std::os::unix::process::ExitStatusExt::signal(&output.status) == Some(9),
    }
}

/// Runs git hermetically in `cwd`; returns (exit code, stdout, stderr).
pub fn git(cwd: &Path, args: &[&str]) -> (i32, String, String) {
    git_cfg(cwd, args, false)
}

/// `default_quotepath`: leave `core.quotePath` at git's default (on), so that paths with
/// non-ASCII bytes are printed quoted with octal escapes, as a user's `git diff` prints them.
pub fn git_cfg(cwd: &Path, args: &[&str], default_quotepath: bool) -> (i32, String, String) {
    let mut cmd = Command::new(tool("git"));
    hermetic(&mut cmd);
    cmd.env("GIT_AUTHOR_NAME", "v").env("GIT_AUTHOR_EMAIL", "v@v").env("GIT_COMMITTER_NAME", "v").env("GIT_COMMITTER_EMAIL", "v@v");
    if !default_quotepath {
        cmd.args(["-c", "core.quotepath=off"]);
    }
    cmd.args(["-c", "diff.noprefix=false", "-c", "diff.mnemonicprefix=false", "-c", "core.autocrlf=false"]);
    cmd.arg("-C").arg(cwd);
    cmd.args(args);
    cmd.stdin(Stdio::null());
    let output = cmd.output().expect("run git");
    (
        output.status.code().unwrap_or(-1),
        String::from_utf8_lossy(&output.stdout).to_string(),
        String::from_utf8_lossy(&output.stderr).to_string(),
    )
}

/// A pair of trees `a/` (old) and `b/` (new) in a scratch directory; `git diff --no-index
/// --no-prefix a b` then prints exactly what `git diff` prints for the same change inside a
/// repository (`--- a/<path>`, `+++ b/<path>`), at about 2 ms per diff.
pub struct TreePair {
    pub scratch: Scratch,
}

impl TreePair {
    pub fn new(tag: &str) -> Self {
        let scratch = Scratch::new(tag);
        std::fs::create_dir_all(scratch.dir.join("a")).unwrap();
        std::fs::create_dir_all(scratch.dir.join("b")).unwrap();
        Self { scratch }
    }
    pub fn set_old(&self, rel: &str, content: &str) {
        self.scratch.write(&format!("a/{rel}"), content);
    }
    pub fn set_new(&self, rel: &str, content: &str) {
        self.scratch.write(&format!("b/{rel}"), content);
    }
    pub fn remove_new(&self, rel: &str) {
        self.scratch.remove(&format!("b/{rel}"));
    }
    pub fn remove_old(&self, rel: &str) {
        self.scratch.remove(&format!("a/{rel}"));
    }
    /// The unified diff old→new with `context` lines of context. `extra` are further git options.
    pub fn diff(&self, context: usize, extra: &[&str]) -> Result<String, String> {
        self.diff_cfg(context, extra, false)
    }

    /// As `diff`, optionally with git's default path quoting (see `git_cfg`).
    pub fn diff_cfg(&self, context: usize, extra: &[&str], default_quotepath: bool) -> Result<String, String> {
        let u = format!("-U{context}");
        let mut args = vec!["diff", "--no-index", "--no-prefix", "--no-color", "--no-ext-diff", u.as_str()];
        args.extend_from_slice(extra);
        args.extend_from_slice(&["a", "b"]);
        let (code, stdout, stderr) = git_cfg(&self.scratch.dir, &args, default_quotepath);
        if code == 0 || code == 1 {
            Ok(fix_git_header(&stdout))
        } else {
            Err(format!("git diff failed ({code}): {stderr}"))
        }
    }
}

/// With `--no-index`, git names an added file `diff --git b/P b/P` and a deleted one
/// `diff --git a/P a/P`; inside a repository both read `diff --git a/P b/P`. Only that header line
/// differs (a line starting with `diff --git ` can never be hunk content, which always starts with
/// ` `, `+`, `-` or `\`).
fn fix_git_header(diff: &str) -> String {
    let mut out = String::with_capacity(diff.len());
    for line in diff.split_inclusive('\n') {
        let body = line.strip_suffix('\n').unwrap_or(line);
        if let Some(rest) = body.strip_prefix("diff --git ") {
            let half = rest.len() / 2;
            if rest.len() % 2 == 1 && rest.as_bytes()[half] == b' ' && rest[..half] == rest[half + 1..] {
                let path = &rest[2..half];
                if rest.starts_with("b/") || rest.starts_with("a/") {
                    out.push_str(&format!("diff --git a/{path} b/{path}"));
                    out.push_str(&line[body.len()..]);
                    continue;
                }
            }
        }
        out.push_str(line);
    }
    out
}

/// The diff git prints for a newly added text file (every line added). Emitted directly for the
/// big spaces; `validate_new_file_diff` compares it with what real git prints.
pub fn new_file_diff(path: &str, content: &str) -> String {
    if content.is_empty() {
        return format!("diff --git a/{path} b/{path}\nnew file mode 100644\nindex 0000000..e69de29\n");
    }
    let lines: Vec<&str> = content.split_inclusive('\n').collect();
    // git appends a TAB to a file name that contains a space.
    let tab = if path.contains(' ') { "\t" } else { "" };
    let mut out = format!("diff --git a/{path} b/{path}\nnew file mode 100644\nindex 0000000..1111111\n--- /dev/null\n+++ b/{path}{tab}\n");
    if lines.len() == 1 {
        out.push_str("@@ -0,0 +1 @@\n");
    } else {
        out.push_str(&format!("@@ -0,0 +1,{} @@\n", lines.len()));
    }
    for l in &lines {
        out.push('+');
        out.push_str(l);
    }
    if !content.ends_with('\n') {
        out.push_str("\n\\ No newline at end of file\n");
    }
    out
}

/// Compares `new_file_diff` with real git (ignoring the blob hash). Returns a description of the
/// difference, if any.
pub fn validate_new_file_diff(path: &str, content: &str) -> Option<String> {
    let pair = TreePair::new("nfd");
    pair.set_new(path, content);
    let real = match pair.diff(3, &[]) {
        Ok(d) => d,
        Err(e) => return Some(e),
    };
    let normalise = |d: &str| -> String {
        d.lines().map(|l| if l.starts_with("index ") { "index".to_string() } else { l.to_string() }).collect::<Vec<_>>().join("\n")
    };
    let ours = new_file_diff(path, content);
    if normalise(&real) == normalise(&ours) {
        None
    } else {
        Some(format!("git printed:\n{real}\nemitter printed:\n{ours}"))
    }
}
