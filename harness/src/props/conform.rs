//! Conformance of the in-process view with the user-visible one: the same files are run through
//! the real CLI and the diagnostics, exit status and listed blocks must equal what LibRunner saw.

use crate::cli::{self, Scratch};
use crate::core::{Cfg, Sink};
use crate::librun::{Diag, Outcome};
use serde_json::Value;

thread_local! {
    static REPO: Scratch = Scratch::repo("conform");
}

fn canon(diags: &[Diag]) -> Vec<String> {
    let mut v: Vec<String> = diags.iter().map(|d| format!("{}|{}|{}|{:?}|{}|{}", d.file, d.code, d.severity, d.range, d.message, d.data)).collect();
    v.sort();
    v
}

/// Runs `files` through the real binary (scan mode and `list`) and compares with `lib`.
pub fn cli_agrees(cfg: &Cfg, files: &[(String, String)], lib: &Outcome, env: &[(&str, &str)], prop: &str, input: &Value, sink: &Sink) {
    REPO.with(|repo| {
        repo.clear();
        for (n, t) in files {
            repo.write(n, t);
        }
        sink.execs(2);
        let run = cli::blockwatch(&cfg.bin, &repo.dir, &[], None, env, 30);
        let list = cli::blockwatch(&cfg.bin, &repo.dir, &["list"], None, env, 30);
        let describe = |extra: &str| format!("CLI and library disagree: {extra}\nlibrary: {}\nCLI: {}", lib.to_json(), run.summary());
        if run.panicked() || run.timed_out {
            sink.fail(format!("{prop}:cli:crash"), describe("crash or timeout"), input.clone());
            return;
        }
        match lib {
            Outcome::Report { blocks, diags } => {
                match run.diags() {
                    Ok(cli_diags) => {
                        if canon(&cli_diags) != canon(diags) {
                            sink.fail(format!("{prop}:cli:diagnostics-differ"), describe("diagnostics"), input.clone());
                        }
                    }
                    Err(e) => sink.fail(format!("{prop}:cli:unreadable-report"), describe(&e), input.clone()),
                }
                if run.code != Some(lib.exit_status()) {
                    sink.fail(format!("{prop}:cli:status-differs"), describe("exit status"), input.clone());
                }
                // `list`: name / line / column / attributes of every block, in source order per file.
                let listed: Value = serde_json::from_str(&list.stdout).unwrap_or(Value::Null);
                let mut want: Vec<String> = Vec::new();
                let mut got: Vec<String> = Vec::new();
                for b in blocks {
                    let name = b.attributes.iter().find(|(k, _)| k == "name").map(|(_, v)| v.clone()).unwrap_or_else(|| "(unnamed)".to_string());
                    let attrs: serde_json::Map<String, Value> = b.attributes.iter().map(|(k, v)| (k.clone(), Value::String(v.clone()))).collect();
                    want.push(format!("{}|{}|{}|{}|{}", b.file.display(), name, b.start_tag_start.0, b.start_tag_start.1, Value::Object(attrs)));
                }
                for (file, items) in listed.as_object().into_iter().flatten() {
                    for it in items.as_array().into_iter().flatten() {
                        got.push(format!("{}|{}|{}|{}|{}", file, it["name"].as_str().unwrap_or("?"), it["line"], it["column"], it["attributes"]));
                    }
                }
                // Order inside a file is part of the observable; files may come in any order.
                let per_file = |v: &[String]| {
                    let mut m: std::collections::BTreeMap<String, Vec<String>> = Default::default();
                    for s in v {
                        m.entry(s.split('|').next().unwrap_or("").to_string()).or_default().push(s.clone());
                    }
                    m
                };
                if list.code != Some(0) || per_file(&want) != per_file(&got) {
                    sink.fail(format!("{prop}:cli:list-differs"), format!("`list` prints {got:?}, the library sees {want:?}; {}", list.summary()), input.clone());
                }
            }
            Outcome::Error { message, .. } => {
                if run.code == Some(0) || run.stderr.trim().is_empty() {
                    sink.fail(format!("{prop}:cli:error-not-reported"), describe(message), input.clone());
                }
            }
            Outcome::Panic { .. } => {}
        }
    });
}
