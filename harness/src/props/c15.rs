//! C15: only files in scope are examined — positional globs, --ignore, diff paths, hidden and
//! git-ignored files, any current directory. E1 over trees × glob sets × ignore sets × diffs:
//! the bulk through the library over an in-memory tree, the parts that live in the real walker,
//! flag parser and root discovery through the real CLI in real directories with real git diffs.

use crate::cli::{self, Scratch, TreePair};
use crate::core::{Cfg, Report, Sink, Tier};
use crate::engine::{self, Grid};
use crate::librun::{self, Input, Outcome};
use crate::props::rules::first_line;
use globset::{Glob, GlobSetBuilder};
use serde_json::{Value, json};
use std::collections::BTreeSet;
use std::sync::Arc;

/// Paths of the tree alphabet. Hidden and git-ignored ones only exist in the CLI phase.
const PATHS: &[&str] = &["x.py", "a/x.py", "b/x.py", "b/b/x.py", "a/b/y.py", "sp ace/x.py", "d.d/x.py", "b/b/b/z.py", "hid/x.py", "pkg.py/x.py"];
const HIDDEN: &[&str] = &[".hid/x.py", ".h.py", "a/.deep/x.py"];
const GITIGNORED: &[&str] = &["ign/x.py", "a/ign/y.py"];
const GLOBS: &[&str] = &["*.py", "a/**", "**/x.py", "b/x.py", "**", "b/*", "**/b/**", ".hid/**", "hid/*", "**/b", "a/b", "a"];
/// The first `LIB_GLOBS` globs form the alphabet of positional and ignore globs; the others
/// (`**/name` and an exact path that equal a *directory's* own path, not its files') are used as
/// --ignore globs in the CLI phase, where the real directory walk runs.
const LIB_GLOBS: usize = 9;

fn file_text(path: &str) -> String {
    format!("# <block name=\"{path}\">\nvalue = 1\n# </block>\n")
}

fn matches(globs: &[&str], path: &str) -> bool {
    let mut b = GlobSetBuilder::new();
    for g in globs {
        b.add(Glob::new(g).expect("glob"));
    }
    b.build().expect("glob set").is_match(path)
}

fn is_hidden(path: &str) -> bool {
    path.split('/').any(|c| c.starts_with('.'))
}

fn is_gitignored(path: &str) -> bool {
    path.split('/').any(|c| c == "ign")
}

/// The reference scope: ((walk ∖ hidden ∖ ignored) ∩ globs) ∪ diff files) ∖ --ignore.
fn expected_scope(tree: &[&str], globs: &[&str], ignores: &[&str], diff_files: &[&str], has_diff: bool) -> BTreeSet<String> {
    let effective: Vec<&str> = if globs.is_empty() && !has_diff { vec!["**"] } else { globs.to_vec() };
    let mut scope: BTreeSet<String> = tree.iter().filter(|p| !is_hidden(p) && !is_gitignored(p)).filter(|p| !effective.is_empty() && matches(&effective, p)).map(|p| p.to_string()).collect();
    scope.extend(diff_files.iter().map(|p| p.to_string()));
    scope.retain(|p| ignores.is_empty() || !matches(ignores, p));
    scope
}

fn subsets_up_to(n: usize, k: usize) -> Vec<Vec<usize>> {
    let mut out = vec![vec![]];
    let mut frontier: Vec<Vec<usize>> = vec![vec![]];
    for _ in 0..k {
        let mut next = Vec::new();
        for s in &frontier {
            let start = s.last().map(|l| l + 1).unwrap_or(0);
            for i in start..n {
                let mut t = s.clone();
                t.push(i);
                next.push(t);
            }
        }
        out.extend(next.iter().cloned());
        frontier = next;
    }
    out
}

#[derive(Clone, Debug, PartialEq, Eq, Hash)]
struct LibCase {
    tree: Vec<usize>,
    globs: Vec<usize>,
    ignores: Vec<usize>,
    /// Indices into `tree` of the files named in the diff; `None` = no diff at all.
    diff: Option<Vec<usize>>,
}

fn check_lib(c: &LibCase, sink: &Sink) {
    let tree: Vec<&str> = c.tree.iter().map(|&i| PATHS[i]).collect();
    let globs: Vec<&str> = c.globs.iter().map(|&i| GLOBS[i]).collect();
    let ignores: Vec<&str> = c.ignores.iter().map(|&i| GLOBS[i]).collect();
    let diff_files: Vec<&str> = c.diff.as_ref().map(|d| d.iter().map(|&i| tree[i]).collect()).unwrap_or_default();
    let files: Vec<(String, String)> = tree.iter().map(|p| (p.to_string(), file_text(p))).collect();
    let diff = c.diff.as_ref().map(|_| diff_files.iter().map(|p| cli::new_file_diff(p, &file_text(p))).collect::<String>());
    let expected = expected_scope(&tree, &globs, &ignores, &diff_files, c.diff.is_some());
    let input = json!({"tree": c.tree, "globs": c.globs, "ignores": c.ignores, "diff": c.diff});
    sink.exec();
    let outcome = librun::run(&Input {
        files,
        diff,
        globs: globs.iter().map(|s| s.to_string()).collect(),
        ignore: ignores.iter().map(|s| s.to_string()).collect(),
        list_only: true,
        ..Default::default()
    });
    let describe = |extra: &str| format!("tree {tree:?}, globs {globs:?}, --ignore {ignores:?}, diff names {:?}: {extra}", c.diff.as_ref().map(|_| &diff_files));
    match &outcome {
        Outcome::Report { blocks, .. } => {
            let got: BTreeSet<String> = blocks.iter().map(|b| b.file.display().to_string()).collect();
            sink.outcome(format!("lib:{}:{}", if got == expected { "agree" } else { "differ" }, expected.len().min(3)));
            if got != expected {
                let missing: Vec<&String> = expected.difference(&got).collect();
                let extra: Vec<&String> = got.difference(&expected).collect();
                let kind = if !extra.is_empty() { "file-outside-scope-examined" } else { "file-in-scope-skipped" };
                sink.fail(format!("C15:{kind}"), describe(&format!("expected scope {expected:?}; missing {missing:?}, extra {extra:?}")), input.clone());
            }
            // Every file carries a block named after its own path.
            for b in blocks {
                if b.attributes.iter().find(|(k, _)| k == "name").map(|(_, v)| v.as_str()) != b.file.to_str() {
                    sink.fail("C15:block-attributed-to-wrong-file", describe(&format!("{:?} lists {:?}", b.file, b.attributes)), input.clone());
                }
            }
        }
        Outcome::Error { message, .. } => sink.fail("C15:unexpected-error", describe(&first_line(message)), input.clone()),
        Outcome::Panic { message } => sink.fail(format!("C15:panic:{}", first_line(message)), describe(message), input.clone()),
    }
    sink.nontrivial();
    if c.tree.len() >= 2 && c.diff.as_ref().is_some_and(|d| d.len() == 1) && c.globs.len() == 1 {
        sink.sample(|| json!({"input": input, "expected_scope": expected}));
    }
}

#[derive(Clone, Debug, PartialEq, Eq, Hash)]
struct CliCase {
    /// Tree: indices into ALL (PATHS + HIDDEN + GITIGNORED).
    tree: Vec<usize>,
    globs: Vec<usize>,
    ignores: Vec<usize>,
    /// Index into `tree` of the one file the diff modifies; `None` = no diff.
    diff: Option<usize>,
    /// The diff shows the file as renamed (from a path that no longer exists) and edited (`-M`).
    rename: bool,
    /// The diff's only change deletes the first line of the file (`-U0`: `@@ -1 +0,0 @@`).
    top_deletion: bool,
}

/// Symbolic links (CLI phase): a link to a regular file is a file of the tree like any other; a
/// link to a directory — even one named like a source file — is neither read nor followed. The
/// targets live in a hidden directory, outside every scope.
const FILE_LINK: &str = "lnk.py";
const DIR_LINK: &str = "dirlnk.js";
const LINK_TARGET_DIR: &str = ".targets";
/// A path with non-ASCII characters (CLI phase): git prints it quoted, with octal escapes, in the
/// headers of a diff (`core.quotePath` is on by default).
const NON_ASCII: &str = "naïve dir/é.py";

fn all_paths() -> Vec<&'static str> {
    PATHS.iter().chain(HIDDEN).chain(GITIGNORED).copied().chain([FILE_LINK, DIR_LINK, NON_ASCII]).collect()
}

fn check_cli(cfg: &Cfg, c: &CliCase, sink: &Sink) {
    let all = all_paths();
    let tree: Vec<&str> = c.tree.iter().map(|&i| all[i]).collect();
    let globs: Vec<&str> = c.globs.iter().map(|&i| GLOBS[i]).collect();
    let ignores: Vec<&str> = c.ignores.iter().map(|&i| GLOBS[i]).collect();
    let diff_files: Vec<&str> = c.diff.map(|i| vec![tree[i]]).unwrap_or_default();
    if diff_files.iter().any(|f| *f == FILE_LINK || *f == DIR_LINK) {
        return; // the diffs of this phase are made from regular files
    }
    // A link to a directory is not a file of the tree.
    let files_of_tree: Vec<&str> = tree.iter().copied().filter(|p| *p != DIR_LINK).collect();
    let expected = expected_scope(&files_of_tree, &globs, &ignores, &diff_files, c.diff.is_some());
    let input = json!({"cli": true, "tree": c.tree, "globs": c.globs, "ignores": c.ignores, "diff": c.diff, "rename": c.rename, "top_deletion": c.top_deletion});
    thread_local! {
        static REPO: Scratch = Scratch::repo("c15");
        static PAIR: TreePair = TreePair::new("c15d");
    }
    REPO.with(|repo| {
        repo.clear();
        repo.write(".gitignore", "ign/\n");
        // An `.ignore` file (ripgrep's convention) is not a git ignore file: it hides nothing.
        repo.write(".ignore", "a/\nx.py\n");
        for (i, p) in tree.iter().enumerate() {
            // The file named in the diff carries the padding its diff was made with.
            let padding = if c.diff == Some(i) { "pad_a = 1\npad_b = 2\npad_c = 3\npad_d = 4\n" } else { "" };
            if *p == FILE_LINK || *p == DIR_LINK {
                repo.write(&format!("{LINK_TARGET_DIR}/real.py"), &file_text(FILE_LINK));
                let target = if *p == FILE_LINK { format!("{LINK_TARGET_DIR}/real.py") } else { LINK_TARGET_DIR.to_string() };
                std::os::unix::fs::symlink(target, repo.dir.join(p)).expect("symlink");
                continue;
            }
            repo.write(p, &format!("{padding}{}", file_text(p)));
        }
        // A real git diff that modifies the chosen file (old version: another value).
        let diff = c.diff.map(|i| {
            PAIR.with(|pair| {
                pair.scratch.clear();
                std::fs::create_dir_all(pair.scratch.dir.join("a")).unwrap();
                std::fs::create_dir_all(pair.scratch.dir.join("b")).unwrap();
                // Old side: the same file under its own name, or (rename) under a name that no
                // longer exists; padded so that git recognises the rename despite the edit.
                let padding = "pad_a = 1\npad_b = 2\npad_c = 3\npad_d = 4\n";
                let old_name = if c.rename { format!("{}.old.py", tree[i]) } else { tree[i].to_string() };
                if c.top_deletion {
                    // The only change: a first line that is gone.
                    pair.set_old(&old_name, &format!("junk_line = 0\n{padding}{}", file_text(tree[i])));
                } else {
                    pair.set_old(&old_name, &format!("{padding}{}", file_text(tree[i]).replace("value = 1", "value = 0")));
                }
                pair.set_new(tree[i], &format!("{padding}{}", file_text(tree[i])));
                // Paths are quoted the way git quotes them by default.
                pair.diff_cfg(0, &["-M"], true).unwrap_or_default()
            })
        });
        let mut args: Vec<String> = vec!["list".to_string()];
        args.extend(globs.iter().map(|g| g.to_string()));
        for i in &ignores {
            args.push("--ignore".to_string());
            args.push(i.to_string());
        }
        let arg_refs: Vec<&str> = args.iter().map(String::as_str).collect();
        // Every directory of the tree (and the root) as current directory.
        let mut dirs: BTreeSet<String> = BTreeSet::from([String::new()]);
        for p in &tree {
            let mut parts: Vec<&str> = p.split('/').collect();
            parts.pop();
            for k in 1..=parts.len() {
                dirs.insert(parts[..k].join("/"));
            }
        }
        let describe = |cwd: &str, extra: &str| format!("tree {tree:?}, globs {globs:?}, --ignore {ignores:?}, diff names {diff_files:?}, cwd {cwd:?}: {extra}");
        for cwd in &dirs {
            sink.exec();
            let run = cli::blockwatch(&cfg.bin, &repo.dir.join(cwd), &arg_refs, diff.as_deref(), &[], 30);
            if run.panicked() || run.timed_out || run.code != Some(0) {
                sink.outcome("cli:failed");
                sink.fail(if run.panicked() { "C15:cli:crash" } else { "C15:cli:run-failed" }.to_string(), describe(cwd, &format!("{}", run.summary())), input.clone());
                continue;
            }
            let listed: Value = serde_json::from_str(&run.stdout).unwrap_or(Value::Null);
            let got: BTreeSet<String> = listed.as_object().map(|o| o.keys().cloned().collect()).unwrap_or_default();
            sink.outcome(format!("cli:{}:{}", if got == expected { "agree" } else { "differ" }, if cwd.is_empty() { "root" } else { "subdir" }));
            if got != expected {
                let extra: Vec<&String> = got.difference(&expected).collect();
                let missing: Vec<&String> = expected.difference(&got).collect();
                let kind = if !extra.is_empty() { "file-outside-scope-examined" } else { "file-in-scope-skipped" };
                let place = if cwd.is_empty() { "" } else { ":from-subdirectory" };
                let diff_kind = if c.top_deletion { ":diff-deletes-first-line-at-U0" } else { "" };
                sink.fail(format!("C15:cli:{kind}{place}{diff_kind}"), describe(cwd, &format!("expected scope {expected:?}; missing {missing:?}, extra {extra:?}")), input.clone());
            }
        }
    });
    sink.nontrivial();
}

pub fn run(cfg: &Cfg, sink: &Arc<Sink>) -> Report {
    let mut report = Report::new("cases = directory trees over paths {x.py, a/x.py, b/x.py, b/b/x.py, a/b/y.py, 'sp ace/x.py', d.d/x.py, b/b/b/z.py, hid/x.py, pkg.py/x.py (a directory named like a source file)} (every file holds one block named after its path) × 0..2 positional globs × 0..2 --ignore globs from {*.py, a/**, **/x.py, b/x.py, **, b/*, **/b/**, .hid/**, hid/*} (CLI phase also --ignore **/b and a/b, which equal a directory's own path, and the positional argument `a`, the plain name of a directory, which is a glob matching no file) × {no diff, diff naming any subset of ≤2 files}; library phase over an in-memory tree (all trees of ≤2, thorough ≤3, paths); CLI phase in real directories with hidden files, a .gitignore'd directory, a symbolic link to a file and one to a directory named like a source file, real `git diff` output (plain edits, rename+edit with -M, and a deletion of the file's first line at -U0) and every directory of the tree as current directory; oracle: the set of files with listed blocks equals ((walk ∖ hidden ∖ git-ignored) ∩ globs ∪ files named in the diff) ∖ --ignore, with `**` implied when run without globs and without diff; non-trivial = every case");
    report.assume("globset decides whether a glob matches a path (same crate, default options, as the documented forms are defined by it)");
    let thorough = cfg.tier == Tier::Thorough;
    // Library phase.
    let glob_sets = subsets_up_to(LIB_GLOBS, 2);
    let mut cases = Vec::new();
    for tree in subsets_up_to(PATHS.len(), cfg.tier.pick(2, 3)) {
        if tree.is_empty() {
            continue;
        }
        for globs in &glob_sets {
            for ignores in &glob_sets {
                if !thorough && globs.len() == 2 && ignores.len() == 2 {
                    continue;
                }
                let mut diffs: Vec<Option<Vec<usize>>> = vec![None, Some(vec![])];
                diffs.extend(subsets_up_to(tree.len(), 2).into_iter().filter(|s| !s.is_empty()).map(Some));
                for diff in diffs {
                    cases.push(LibCase { tree: tree.clone(), globs: globs.clone(), ignores: ignores.clone(), diff });
                }
            }
        }
    }
    let n = cases.len();
    report.phase(engine::explore("trees × globs × ignores × diffs (library, in-memory tree)", &format!("{n} cases"), Grid { cases, check: |c: &LibCase, s: &Sink| check_lib(c, s) }, sink, cfg.threads, false));
    if !thorough {
        report.cap("quick: two globs together with two ignore globs only in the thorough tier; trees of ≤2 paths (thorough ≤3)");
    }
    // CLI phase.
    let all = all_paths();
    let full: Vec<usize> = (0..all.len()).collect();
    let mut trees: Vec<Vec<usize>> = vec![full.clone()];
    trees.extend((0..all.len()).map(|i| vec![i]));
    for pair in [[2usize, 3], [1, 4], [0, 10], [3, 7], [5, 6], [11, 13], [2, 14], [12, 3], [8, 10], [9, 0]] {
        trees.push(pair.to_vec());
    }
    if thorough {
        trees.extend(subsets_up_to(all.len(), 3).into_iter().filter(|t| t.len() == 3));
    }
    let cli_globs: Vec<Vec<usize>> = if thorough { glob_sets.iter().cloned().chain([vec![11]]).collect() } else { subsets_up_to(LIB_GLOBS, 1).into_iter().chain([vec![1, 3], vec![2, 5], vec![0, 6], vec![11]]).collect() };
    let cli_ignores: Vec<Vec<usize>> = vec![vec![], vec![3], vec![2], vec![6], vec![1, 5], vec![7], vec![8], vec![9], vec![10]];
    let mut cases = Vec::new();
    let quick_globs: Vec<Vec<usize>> = subsets_up_to(LIB_GLOBS, 1).into_iter().chain([vec![1, 3], vec![2, 5], vec![0, 6], vec![11]]).collect();
    for tree in &trees {
        for globs in &cli_globs {
            // Thorough: the 816 three-path trees go with the quick tier's glob sets, everything
            // else with every glob set.
            if thorough && tree.len() == 3 && !quick_globs.contains(globs) {
                continue;
            }
            for (ii, ignores) in cli_ignores.iter().enumerate() {
                // Quick: the full tree (18 paths, a dozen directories to start from) goes with four
                // of the ignore sets; the small trees with all of them.
                if !thorough && tree.len() > 2 && ![0usize, 4, 7, 8].contains(&ii) {
                    continue;
                }
                let mut diffs: Vec<Option<usize>> = vec![None];
                diffs.extend((0..tree.len()).map(Some));
                for diff in diffs {
                    cases.push(CliCase { tree: tree.clone(), globs: globs.clone(), ignores: ignores.clone(), diff, rename: false, top_deletion: false });
                    if diff.is_some() && globs.len() <= 1 {
                        cases.push(CliCase { tree: tree.clone(), globs: globs.clone(), ignores: ignores.clone(), diff, rename: true, top_deletion: false });
                    }
                    if diff.is_some() && globs.is_empty() {
                        cases.push(CliCase { tree: tree.clone(), globs: globs.clone(), ignores: ignores.clone(), diff, rename: false, top_deletion: true });
                    }
                }
            }
        }
    }
    let n = cases.len();
    let cfg2 = cfg.clone();
    report.phase(engine::explore(
        "real directories, hidden and git-ignored files, real git diffs, every cwd (CLI)",
        &format!("{n} cases × every directory of the tree as cwd"),
        Grid { cases, check: move |c: &CliCase, s: &Sink| check_cli(&cfg2, c, s) },
        sink,
        cfg.threads,
        false,
    ));
    report
}

pub fn replay(cfg: &Cfg, input: &Value, sink: &Arc<Sink>) {
    let list = |k: &str| -> Vec<usize> { input[k].as_array().map(|a| a.iter().filter_map(|v| v.as_u64().map(|x| x as usize)).collect()).unwrap_or_default() };
    if input.get("cli").is_some() {
        check_cli(cfg, &CliCase { tree: list("tree"), globs: list("globs"), ignores: list("ignores"), diff: input["diff"].as_u64().map(|x| x as usize), rename: input["rename"].as_bool().unwrap_or(false), top_deletion: input["top_deletion"].as_bool().unwrap_or(false) }, sink);
    } else {
        let diff = if input["diff"].is_null() { None } else { Some(list("diff")) };
        check_lib(&LibCase { tree: list("tree"), globs: list("globs"), ignores: list("ignores"), diff }, sink);
    }
}
