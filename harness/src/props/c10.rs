//! C10: every diagnostic points at the text it is about. Exhaustive product of comment layouts ×
//! rule kinds; the reported range is compared with the position of the offending key / of the
//! start tag known from the construction, and the file bytes at the range are sliced.

use crate::cli::{self, Scratch};
use crate::core::{Cfg, Report, Sink};
use crate::engine::{self, Grid};
use crate::librun::{self, Diag, Input, Outcome};
use crate::props::langkit::{self, FormKind, Kit, Layout, Renderer, Seg, Tags};
use crate::props::rules::first_line;
use serde_json::{Value, json};
use std::sync::{Arc, OnceLock};

#[derive(Clone, Copy, Debug, PartialEq, Eq, Hash)]
pub enum Host {
    PyLine,
    RsLine,
    RsDoc,
    JsBlock,
    RsBlock,
    MdLink,
    HtmlComment,
    MdHtml,
    /// `/*** … ***/`: a banner comment whose lines begin with a run of stars.
    JsBanner,
}

impl Host {
    const ALL: [Host; 9] = [Host::PyLine, Host::RsLine, Host::RsDoc, Host::JsBlock, Host::RsBlock, Host::MdLink, Host::HtmlComment, Host::MdHtml, Host::JsBanner];
    fn file(self) -> &'static str {
        match self {
            Host::PyLine => "x.py",
            Host::RsLine | Host::RsDoc | Host::RsBlock => "x.rs",
            Host::JsBlock | Host::JsBanner => "x.js",
            Host::MdLink | Host::MdHtml => "x.md",
            Host::HtmlComment => "x.html",
        }
    }
    fn is_block(self) -> bool {
        matches!(self, Host::JsBlock | Host::RsBlock | Host::HtmlComment | Host::MdHtml | Host::JsBanner)
    }
    fn delims(self) -> (&'static str, &'static str) {
        match self {
            Host::PyLine => ("#", ""),
            Host::RsLine => ("//", ""),
            Host::RsDoc => ("///", ""),
            Host::JsBlock | Host::RsBlock => ("/*", "*/"),
            Host::JsBanner => ("/***", "***/"),
            Host::MdLink => ("[//]: # (", ")"),
            Host::HtmlComment | Host::MdHtml => ("<!--", "-->"),
        }
    }
    /// A content line holding `key` (valid in the host language).
    fn content(self, key: &str) -> String {
        match self {
            Host::PyLine => format!("{key} = 1"),
            Host::RsLine | Host::RsDoc | Host::RsBlock => format!("const {}: u8 = 1;", key.to_uppercase()),
            Host::JsBlock | Host::JsBanner => format!("{key};"),
            Host::MdLink | Host::MdHtml | Host::HtmlComment => format!("{key} text"),
        }
    }
    fn markdown(self) -> bool {
        matches!(self, Host::MdLink | Host::MdHtml)
    }
}

#[derive(Clone, Copy, Debug, PartialEq, Eq, Hash)]
pub enum Rule {
    Sorted,
    SortedRegex,
    Unique,
    UniqueRegex,
    /// The key runs from the middle of the line to its end.
    UniqueRegexEol,
    Pattern,
    LineCount,
    Lua,
    Affects,
}

impl Rule {
    const ALL: [Rule; 9] = [Rule::Sorted, Rule::SortedRegex, Rule::Unique, Rule::UniqueRegex, Rule::UniqueRegexEol, Rule::Pattern, Rule::LineCount, Rule::Lua, Rule::Affects];
    fn key_range(self) -> bool {
        matches!(self, Rule::Sorted | Rule::SortedRegex | Rule::Unique | Rule::UniqueRegex | Rule::UniqueRegexEol | Rule::Pattern)
    }
    fn code(self) -> &'static str {
        match self {
            Rule::Sorted | Rule::SortedRegex => "keep-sorted",
            Rule::Unique | Rule::UniqueRegex | Rule::UniqueRegexEol => "keep-unique",
            Rule::Pattern => "line-pattern",
            Rule::LineCount => "line-count",
            Rule::Lua => "check-lua",
            Rule::Affects => "affects",
        }
    }
}

#[derive(Clone, Debug, PartialEq, Eq, Hash)]
pub struct Case {
    pub host: Host,
    /// Comment lines before / after the tag inside the same comment (block hosts).
    pub before: u8,
    pub after: u8,
    /// The start tag spans 1, 2 or 4 lines.
    pub multiline_tag: u8,
    /// Content begins on the tag's own line, right after the comment (block hosts).
    pub same_line: bool,
    /// 0 none, 1 two spaces, 2 tab: indentation of the tag comment and of the content lines.
    pub indent: u8,
    pub multibyte: bool,
    pub rule: Rule,
    /// Index (0-based) of the content line holding the offending key.
    pub position: u8,
}

fn lua_script() -> &'static str {
    static SCRIPT: OnceLock<(Scratch, String)> = OnceLock::new();
    &SCRIPT
        .get_or_init(|| {
            let s = Scratch::new("c10lua");
            s.write("bad.lua", "function validate(ctx, content)\n  return \"bad\"\nend\n");
            let p = s.path("bad.lua").display().to_string();
            (s, p)
        })
        .1
}

pub struct Built {
    pub text: String,
    /// Byte offsets of `<` and `>` of the start tag.
    pub lt: usize,
    pub gt: usize,
    /// Byte range of the offending key (key-range rules).
    pub key: Option<(usize, usize)>,
}

impl Built {
    fn position(&self, offset: usize) -> (u64, u64) {
        let before = &self.text[..offset];
        ((before.matches('\n').count() + 1) as u64, (offset - before.rfind('\n').map(|i| i + 1).unwrap_or(0) + 1) as u64)
    }
}

pub fn applicable(c: &Case) -> bool {
    let block = c.host.is_block();
    if !block && (c.before > 0 || c.after > 0 || c.multiline_tag > 0 || c.same_line) {
        return false;
    }
    if c.host.markdown() && c.indent != 0 {
        return false; // indentation changes the Markdown block structure
    }
    if c.host == Host::MdHtml && c.same_line {
        return false;
    }
    if c.host == Host::MdLink && matches!(c.rule, Rule::SortedRegex | Rule::UniqueRegex | Rule::UniqueRegexEol) {
        return false; // a Markdown title delimited by parentheses cannot hold the group's parentheses
    }
    if !c.rule.key_range() && c.position != 0 {
        return false;
    }
    true
}

pub fn build(c: &Case) -> Built {
    let indent = ["", "  ", "\t"][c.indent as usize];
    let (open, close) = c.host.delims();
    let attrs = rule_attrs(c.rule);
    let mut text = String::new();
    if c.host.markdown() {
        text.push_str("# Title\n\n");
    } else {
        text.push_str(&c.host.content("first"));
        text.push('\n');
    }
    // Start comment.
    text.push_str(indent);
    text.push_str(open);
    text.push(' ');
    // Continuation lines of the banner host begin with a run of stars.
    let cont = if c.host == Host::JsBanner { " ** " } else { "   " };
    for i in 0..c.before {
        text.push_str(&format!("before {i}\n{indent}{cont}"));
    }
    if c.multibyte {
        text.push_str("é≤ ");
    }
    let lt = text.len();
    // With `multibyte` the tag itself holds multi-byte characters as well.
    let name = if c.multibyte { "né≤" } else { "n" };
    match c.multiline_tag {
        0 => text.push_str(&format!("<block name=\"{name}\" {attrs}>")),
        1 => text.push_str(&format!("<block name=\"{name}\"\n{indent}      {attrs}>")),
        _ => text.push_str(&format!("<block name=\"{name}\"\n{indent}      x=\"1\"\n{indent}      {attrs}\n{indent}      y=\"2\">")),
    }
    let gt = text.len() - 1;
    for i in 0..c.after {
        text.push_str(&format!("\n{indent}{cont}after {i}"));
    }
    if !close.is_empty() {
        if close != ")" {
            text.push(' ');
        }
        text.push_str(close);
    }
    // Content lines.
    let n = c.position as usize + 1;
    let mut key = None;
    let mut lines: Vec<(String, Option<(usize, usize)>)> = Vec::new();
    for i in 0..n.max(2) {
        let offending = i == c.position as usize && c.rule.key_range();
        // Keys ascend (m1, m2, …) until the offending one.
        let plain_key = if offending {
            match c.rule {
                Rule::Unique | Rule::UniqueRegex | Rule::UniqueRegexEol => "m1".to_string(),
                Rule::Pattern => "a0%".to_string(),
                _ => "a0".to_string(),
            }
        } else {
            format!("m{}", i + 1)
        };
        let (line, range) = match c.rule {
            Rule::SortedRegex | Rule::UniqueRegex | Rule::UniqueRegexEol => {
                let prefix = if c.multibyte { "é pre k" } else { "pre k" };
                let body = format!("{prefix}{plain_key} post");
                let end = if c.rule == Rule::UniqueRegexEol { body.len() } else { prefix.len() + plain_key.len() };
                (body, (prefix.len(), end))
            }
            _ => {
                let body = c.host.content(&plain_key);
                // The key of a plain rule is the whole trimmed line.
                let len = body.len();
                (body, (0, len))
            }
        };
        lines.push((line, offending.then_some(range)));
    }
    // The offending key must not be first for sort/unique (a previous key is needed).
    for (i, (line, range)) in lines.iter().enumerate() {
        let on_tag_line = i == 0 && c.same_line;
        if on_tag_line {
            text.push(' ');
        } else {
            text.push('\n');
            text.push_str(indent);
        }
        let start = text.len();
        text.push_str(line);
        if let Some((a, b)) = range {
            key = Some((start + a, start + b));
            // The second content line, when offending, carries trailing blanks (not part of the
            // key, unless the key is whatever follows to the end of the line).
            if i == 1 && c.rule != Rule::UniqueRegexEol {
                text.push_str("  ");
            }
        }
    }
    text.push('\n');
    if c.host.markdown() {
        text.push('\n');
    }
    // End comment.
    text.push_str(indent);
    text.push_str(open);
    text.push_str(if open.ends_with('(') { "</block>" } else { " </block>" });
    if !close.is_empty() {
        if close != ")" {
            text.push(' ');
        }
        text.push_str(close);
    }
    text.push('\n');
    Built { text, lt, gt, key }
}

fn check_case(c: &Case, cfg: Option<&Cfg>, sink: &Sink) {
    if !applicable(c) {
        return;
    }
    // Sort/unique need a previous key: the offending key cannot be the first content line.
    if matches!(c.rule, Rule::Sorted | Rule::SortedRegex | Rule::Unique | Rule::UniqueRegex | Rule::UniqueRegexEol) && c.position == 0 {
        return;
    }
    let built = build(c);
    let input = json!({"case": format!("{c:?}"), "host": format!("{:?}", c.host), "before": c.before, "after": c.after, "multiline_tag": c.multiline_tag, "same_line": c.same_line, "indent": c.indent, "multibyte": c.multibyte, "rule": format!("{:?}", c.rule), "position": c.position});
    let file = c.host.file();
    sink.exec();
    let diff = (c.rule == Rule::Affects).then(|| cli::new_file_diff(file, &built.text));
    let outcome = librun::run(&Input { files: vec![(file.to_string(), built.text.clone())], diff, ..Default::default() });
    let describe = |extra: &str| format!("{c:?}: {extra}\n--- {file} ---\n{}", built.text);
    let diags: Vec<&Diag> = match &outcome {
        Outcome::Report { diags, blocks } => {
            if blocks.len() != 1 {
                sink.fail(format!("C10:block-not-found-as-written:{:?}", c.host), describe(&format!("the file holds one block, {} were found", blocks.len())), input);
                return;
            }
            diags.iter().filter(|d| d.code == c.rule.code()).collect()
        }
        Outcome::Error { message, .. } => {
            sink.outcome(format!("{:?}:{:?}:error", c.host, c.rule));
            sink.fail(format!("C10:unexpected-error:{:?}", c.rule), describe(&first_line(message)), input);
            return;
        }
        Outcome::Panic { message } => {
            sink.fail(format!("C10:panic:{}", first_line(message)), describe(message), input);
            return;
        }
    };
    let [d] = diags.as_slice() else {
        sink.outcome(format!("{:?}:{:?}:diagnostics={}", c.host, c.rule, diags.len()));
        sink.fail(format!("C10:expected-one-diagnostic:{:?}", c.rule), describe(&format!("{} {} diagnostics: {:?}", diags.len(), c.rule.code(), outcome.to_json())), input.clone());
        return;
    };
    let (want_start, want_end, what) = if c.rule.key_range() {
        let (a, b) = built.key.expect("key range");
        (built.position(a), built.position(b - 1), "offending key")
    } else {
        (built.position(built.lt), built.position(built.gt), "start tag")
    };
    let got = d.range;
    let ok = (got.0, got.1) == want_start && (got.2, got.3) == want_end;
    sink.outcome(format!("{:?}:{:?}:{}", c.host, c.rule, if ok { "exact" } else { "off" }));
    if !ok {
        let layout = format!(
            "{}{}{}{}",
            if c.before > 0 { ":comment-lines-before-tag" } else { "" },
            if c.after > 0 { ":comment-lines-after-tag" } else { "" },
            ["", ":two-line-tag", ":four-line-tag"][c.multiline_tag as usize],
            if c.same_line { ":content-on-tag-line" } else { "" }
        );
        let kind = if (got.0, got.2) != (want_start.0, want_end.0) { "wrong-line" } else { "wrong-columns" };
        sink.fail(
            format!("C10:{kind}:{}:{:?}{layout}", if c.rule.key_range() { "key" } else { "tag" }, c.host),
            describe(&format!("the {what} is at {}:{}–{}:{} but the diagnostic says {}:{}–{}:{}", want_start.0, want_start.1, want_end.0, want_end.1, got.0, got.1, got.2, got.3)),
            input.clone(),
        );
    }
    sink.nontrivial();
    // CLI conformance slice: the layouts with one comment line before and after the tag also go
    // through the real binary (same diagnostics, status and `list` output).
    if let Some(cfg) = cfg {
        if c.before == 1 && c.after == 1 && c.indent == 0 && c.rule != Rule::Affects {
            let files = vec![(file.to_string(), built.text.clone())];
            crate::props::conform::cli_agrees(cfg, &files, &outcome, &[], "C10", &input, sink);
        }
    }
    if c.before == 1 && c.after == 1 {
        sink.sample(|| json!({"case": format!("{c:?}"), "file": built.text, "expected_range": [want_start.0, want_start.1, want_end.0, want_end.1]}));
    }
}

/// Second space: the same rules in every comment form of every grammar's construction kit (all 39
/// registered suffixes), every applicable tag layout of the kit, LF and CRLF line ends.
#[derive(Clone, Debug, PartialEq, Eq, Hash)]
pub struct KitCase {
    pub grammar: &'static str,
    pub file: u8,
    pub form: u8,
    pub layout: Layout,
    pub crlf: bool,
    pub rule: Rule,
    pub position: u8,
}

/// A one-line content line of the kit's language holding `text`: a comment of the kit's simplest
/// form (a paragraph in Markdown), so that the whole trimmed line is the key of plain rules.
fn kit_line(kit: &Kit, text: &str) -> String {
    if let Some(f) = kit.forms.iter().find(|f| f.kind == FormKind::Line) {
        format!("{} {text}", f.open)
    } else if kit.forms.iter().any(|f| f.kind == FormKind::Md) {
        format!("{text} text")
    } else {
        let f = kit.forms.iter().find(|f| f.kind == FormKind::Block).expect("block form");
        format!("{} {text} {}", f.open, f.close)
    }
}

fn kit_applicable(c: &KitCase) -> bool {
    let Some(kit) = langkit::kit(c.grammar) else { return false };
    if c.file as usize >= kit.files.len() {
        return false;
    }
    let seg = Seg::Comment { form: c.form, layout: c.layout, tags: Tags::Open };
    if !Renderer::applicable(kit, &[], 1, false, Some(&Seg::Code(0)), &seg) {
        return false;
    }
    let form = kit.forms[c.form as usize];
    if !form.pre.is_empty() || !form.post.is_empty() {
        return false; // code around the comment on its line would be part of the first key
    }
    if form.kind == FormKind::Md && form.open.ends_with('(') && matches!(c.rule, Rule::SortedRegex | Rule::UniqueRegex | Rule::UniqueRegexEol) {
        return false; // a title delimited by parentheses cannot hold the group's parentheses
    }
    if !c.rule.key_range() && c.position != 0 {
        return false;
    }
    if matches!(c.rule, Rule::Sorted | Rule::SortedRegex | Rule::Unique | Rule::UniqueRegex | Rule::UniqueRegexEol) && c.position == 0 {
        return false;
    }
    true
}

fn build_kit(c: &KitCase) -> Built {
    let kit = langkit::kit(c.grammar).expect("kit");
    let mut r = Renderer::new(kit, c.crlf);
    // The tag itself holds multi-byte characters.
    r.extra_attrs = format!(" note=\"é≤ café\" {}", rule_attrs(c.rule));
    r.seg(&Seg::Code(0));
    r.comment(c.form as usize, c.layout, Tags::Open);
    let n = (c.position as usize + 1).max(2);
    let mut key = None;
    for i in 0..n {
        let offending = i == c.position as usize && c.rule.key_range();
        let plain_key = if offending {
            match c.rule {
                Rule::Unique | Rule::UniqueRegex | Rule::UniqueRegexEol => "m1".to_string(),
                Rule::Pattern => "a0%".to_string(),
                _ => "a0".to_string(),
            }
        } else {
            format!("m{}", i + 1)
        };
        let (line, range) = match c.rule {
            Rule::SortedRegex | Rule::UniqueRegex | Rule::UniqueRegexEol => {
                let line = kit_line(kit, &format!("é pre k{plain_key} post"));
                let at = line.find(&format!("k{plain_key}")).expect("key") + 1;
                let end = if c.rule == Rule::UniqueRegexEol { line.len() } else { at + plain_key.len() };
                (line, (at, end))
            }
            _ => {
                let line = kit_line(kit, &plain_key);
                let len = line.len();
                (line, (0, len))
            }
        };
        let start = r.offset();
        // The second content line, when offending, carries trailing blanks (not part of the key).
        if offending && i == 1 && c.rule != Rule::UniqueRegexEol { r.raw(&format!("{line}  ")) } else { r.raw(&line) }
        if offending {
            key = Some((start + range.0, start + range.1));
        }
    }
    let out = r.finish();
    let b = out.blocks.first().expect("one block");
    Built { text: out.text.clone(), lt: b.lt, gt: b.gt, key }
}

fn rule_attrs(rule: Rule) -> String {
    match rule {
        Rule::Sorted => "keep-sorted".to_string(),
        Rule::SortedRegex => "keep-sorted keep-sorted-pattern=\"k(?P<value>[a-z]\\d)\"".to_string(),
        Rule::Unique => "keep-unique".to_string(),
        Rule::UniqueRegex => "keep-unique=\"k(?P<value>[a-z]\\d)\"".to_string(),
        Rule::UniqueRegexEol => "keep-unique=\"k(?P<value>[a-z]\\d.*)\"".to_string(),
        Rule::Pattern => "line-pattern=\"^[^%]*$\"".to_string(),
        Rule::LineCount => "line-count=\"<1\"".to_string(),
        Rule::Lua => format!("check-lua=\"{}\"", lua_script()),
        Rule::Affects => "affects=\":missing\"".to_string(),
    }
}

fn check_kit_case(c: &KitCase, sink: &Sink) {
    if !kit_applicable(c) {
        return;
    }
    let kit = langkit::kit(c.grammar).expect("kit");
    let built = build_kit(c);
    let file = kit.files[c.file as usize];
    let input = json!({"kit_case": format!("{c:?}")});
    sink.exec();
    let diff = (c.rule == Rule::Affects).then(|| cli::new_file_diff(file, &built.text));
    let outcome = librun::run(&Input { files: vec![(file.to_string(), built.text.clone())], diff, ..Default::default() });
    let describe = |extra: &str| format!("{c:?}: {extra}\n--- {file} ---\n{}", built.text);
    let form = kit.forms[c.form as usize];
    let tagged = format!("{:?}{}:{:?}{}", form.kind, form.open.replace(' ', "_"), c.layout, if c.crlf { ":crlf" } else { "" });
    let diags: Vec<&Diag> = match &outcome {
        Outcome::Report { diags, blocks } => {
            if blocks.len() != 1 {
                sink.fail(format!("C10:kit:block-not-found-as-written:{tagged}"), describe(&format!("the file holds one block, {} were found", blocks.len())), input);
                return;
            }
            diags.iter().filter(|d| d.code == c.rule.code()).collect()
        }
        Outcome::Error { message, .. } => {
            sink.outcome(format!("kit:{}:{:?}:error", c.grammar, c.rule));
            sink.fail(format!("C10:kit:unexpected-error:{:?}:{tagged}", c.rule), describe(&first_line(message)), input);
            return;
        }
        Outcome::Panic { message } => {
            sink.fail(format!("C10:kit:panic:{}", first_line(message)), describe(message), input);
            return;
        }
    };
    let [d] = diags.as_slice() else {
        sink.outcome(format!("kit:{}:{:?}:diagnostics={}", c.grammar, c.rule, diags.len()));
        sink.fail(format!("C10:kit:expected-one-diagnostic:{:?}:{tagged}", c.rule), describe(&format!("{} {} diagnostics: {:?}", diags.len(), c.rule.code(), outcome.to_json())), input);
        return;
    };
    let (want_start, want_end, what) = if c.rule.key_range() {
        let (a, b) = built.key.expect("key range");
        (built.position(a), built.position(b - 1), "offending key")
    } else {
        (built.position(built.lt), built.position(built.gt), "start tag")
    };
    let got = d.range;
    let ok = (got.0, got.1) == want_start && (got.2, got.3) == want_end;
    sink.outcome(format!("kit:{}:{:?}:{}", c.grammar, c.rule, if ok { "exact" } else { "off" }));
    if !ok {
        let kind = if (got.0, got.2) != (want_start.0, want_end.0) { "wrong-line" } else { "wrong-columns" };
        sink.fail(
            format!("C10:kit:{kind}:{}:{tagged}", if c.rule.key_range() { "key" } else { "tag" }),
            describe(&format!("the {what} is at {}:{}–{}:{} but the diagnostic says {}:{}–{}:{}", want_start.0, want_start.1, want_end.0, want_end.1, got.0, got.1, got.2, got.3)),
            input,
        );
    }
    sink.nontrivial();
    if c.position <= 1 && c.file == 0 && !c.crlf && c.rule == Rule::Pattern {
        sink.sample(|| json!({"kit_case": format!("{c:?}"), "file": built.text, "expected_range": [want_start.0, want_start.1, want_end.0, want_end.1]}));
    }
}

pub fn all_kit_cases(thorough: bool) -> Vec<KitCase> {
    let positions = if thorough { 6u8 } else { 3 };
    let layouts = [Layout::Bare, Layout::Noisy, Layout::Multi(0), Layout::Multi(1), Layout::Multi(2), Layout::Indented, Layout::SameLine, Layout::Trailing];
    let mut cases = Vec::new();
    for kit in langkit::KITS {
        for file in 0..kit.files.len() as u8 {
            for form in 0..kit.forms.len() as u8 {
                for layout in layouts {
                    for crlf in [false, true] {
                        for rule in Rule::ALL {
                            for position in 0..positions {
                                let c = KitCase { grammar: kit.grammar, file, form, layout, crlf, rule, position };
                                if kit_applicable(&c) {
                                    cases.push(c);
                                }
                            }
                        }
                    }
                }
            }
        }
    }
    cases
}

pub fn all_cases(thorough: bool) -> Vec<Case> {
    let mut cases = Vec::new();
    let (lines, positions) = if thorough { (5u8, 5u8) } else { (3, 3) };
    for host in Host::ALL {
        for before in 0..lines {
            for after in 0..lines {
                for multiline_tag in 0..3u8 {
                    for same_line in [false, true] {
                        for indent in 0..3u8 {
                            for multibyte in [false, true] {
                                for rule in Rule::ALL {
                                    for position in 0..positions {
                                        let c = Case { host, before, after, multiline_tag, same_line, indent, multibyte, rule, position };
                                        if applicable(&c) {
                                            cases.push(c);
                                        }
                                    }
                                }
                            }
                        }
                    }
                }
            }
        }
    }
    cases
}

pub fn run(cfg: &Cfg, sink: &Arc<Sink>) -> Report {
    let mut report = Report::new("cases = full product of host comment form {Python #, Rust //, Rust ///, JS /* */, Rust /* */, Markdown link-reference, HTML comment, HTML comment in Markdown, JS banner comment /*** … ***/ with ** continuation lines} × comment lines before the tag 0..2 × after the tag 0..2 × start tag on 1, 2 or 4 lines × content starting on the tag's line × indentation {none, 2 spaces, tab} × multi-byte text before tag and key × rule {sorted, sorted by regex group mid-line, unique, unique by regex group, pattern → key range; line-count, check-lua, affects (all-lines-added diff) → tag range} × offending content line 1..3; the reported range must equal the constructed position of the offending key (first to last byte) or of the start tag (`<` to `>`); non-trivial = every applicable case");
    report.assume("check-ai ranges are covered by C19's exploration (same tag range code path as check-lua)");
    let thorough = cfg.tier == crate::core::Tier::Thorough;
    let cases = all_cases(thorough);
    let n = cases.len();
    let cfg2 = cfg.clone();
    report.phase(engine::explore("layouts × rules", &format!("{n} cases (full product of the applicable combinations)"), Grid { cases, check: move |c: &Case, s: &Sink| check_case(c, Some(&cfg2), s) }, sink, cfg.threads, false));
    let cases = all_kit_cases(thorough);
    let n = cases.len();
    report.phase(engine::explore("every kit comment form × rules", &format!("{n} cases: 23 grammars (all 39 suffixes) × every comment form of the grammar's kit × tag layouts {{bare, noisy with multi-byte text, line 1/2/3 of a 3-line comment, indented, content on the tag's line, trailing a code line}} × LF/CRLF × 8 rules × offending line 1..3; content lines are comments of the language"), Grid { cases, check: |c: &KitCase, s: &Sink| check_kit_case(c, s) }, sink, cfg.threads, false));
    report
}

pub fn replay(cfg: &Cfg, input: &Value, sink: &Arc<Sink>) {
    if let Some(want) = input["kit_case"].as_str() {
        match all_kit_cases(true).into_iter().find(|c| format!("{c:?}") == want) {
            Some(c) => check_kit_case(&c, sink),
            None => sink.machinery("replay: unknown kit case"),
        }
        return;
    }
    let want = input["case"].as_str().unwrap_or("");
    match all_cases(true).into_iter().find(|c| format!("{c:?}") == want) {
        Some(c) => check_case(&c, Some(cfg), sink),
        None => sink.machinery("replay: unknown case"),
    }
}
