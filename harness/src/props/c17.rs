//! C17: the default Lua mode is a sandbox. Explicit-state reachability *inside* the interpreter:
//! a probe script explores the whole object graph reachable from its global environment (table
//! fields, keys, metatables, the string metatable) and reports every reachable function; the set
//! is compared with an allow-list per mode. Lua has no ambient authority beyond reachable values,
//! so the closure decides the property for every script. Plus a battery of concrete escapes.

use crate::cli::{self, Scratch};
use crate::core::{Cfg, Phase, Report, Sink};
use serde_json::{Value, json};
use std::collections::BTreeSet;
use std::sync::Arc;

const PROBE: &str = r#"
local function probe()
  local seen, queue, out = {}, {}, {}
  local edges = 0
  local function push(v, path)
    local t = type(v)
    edges = edges + 1
    if (t == "table" or t == "function" or t == "userdata" or t == "thread") and not seen[v] then
      seen[v] = path
      queue[#queue + 1] = { v, path }
    end
  end
  push(_G, "_G")
  push(getmetatable(""), "<string-metatable>")
  push(_ENV, "_ENV")
  local i = 1
  while i <= #queue do
    local v, path = queue[i][1], queue[i][2]
    i = i + 1
    if type(v) == "function" then
      out[#out + 1] = path
    elseif type(v) == "table" then
      local keys = {}
      for k in next, v do keys[#keys + 1] = k end
      table.sort(keys, function(a, b) return tostring(a) < tostring(b) end)
      for _, k in ipairs(keys) do
        push(k, path .. ".<key>")
        push(rawget(v, k), path .. "." .. tostring(k))
      end
    end
    local ok, mt = pcall(getmetatable, v)
    if ok and mt ~= nil then push(mt, path .. ".<metatable>") end
  end
  table.sort(out)
  return "STATES=" .. tostring(#queue) .. " EDGES=" .. tostring(edges) .. "\n" .. table.concat(out, "\n")
end
-- The script's top-level chunk runs before validate(): what is reachable *then* counts as well.
local at_load = probe()
function validate(ctx, content)
  return at_load .. "\n=====CALL=====\n" .. probe()
end
"#;

/// Lua 5.4 base library minus `dofile`, `loadfile`, `require`, plus coroutine, table, string, utf8, math.
const SANDBOX_ALLOWED: &[&str] = &[
    "assert", "collectgarbage", "error", "getmetatable", "ipairs", "load", "next", "pairs", "pcall", "print", "rawequal", "rawget", "rawlen", "rawset", "select",
    "setmetatable", "tonumber", "tostring", "type", "warn", "xpcall",
    "coroutine.close", "coroutine.create", "coroutine.isyieldable", "coroutine.resume", "coroutine.running", "coroutine.status", "coroutine.wrap", "coroutine.yield",
    "table.concat", "table.insert", "table.move", "table.pack", "table.remove", "table.sort", "table.unpack",
    "string.byte", "string.char", "string.dump", "string.find", "string.format", "string.gmatch", "string.gsub", "string.len", "string.lower", "string.match", "string.pack",
    "string.packsize", "string.rep", "string.reverse", "string.sub", "string.unpack", "string.upper",
    "utf8.char", "utf8.codepoint", "utf8.codes", "utf8.len", "utf8.offset",
    "math.abs", "math.acos", "math.asin", "math.atan", "math.ceil", "math.cos", "math.deg", "math.exp", "math.floor", "math.fmod", "math.log", "math.max", "math.min", "math.modf",
    "math.rad", "math.random", "math.randomseed", "math.sin", "math.sqrt", "math.tan", "math.tointeger", "math.type", "math.ult",
    // the script's own function
    "validate",
];

const FORBIDDEN_IN_SANDBOX: &[&str] = &["io", "os", "package", "debug", "require", "dofile", "loadfile"];

/// `_G.string.rep` → `string.rep`; paths not rooted in `_G` are kept.
fn normalise(path: &str) -> String {
    path.strip_prefix("_G.").unwrap_or(path).to_string()
}

fn run_probe(cfg: &Cfg, repo: &Scratch, mode: Option<&str>) -> Result<(BTreeSet<String>, u64, u64), String> {
    let env: Vec<(&str, &str)> = mode.map(|m| vec![("BLOCKWATCH_LUA_MODE", m)]).unwrap_or_default();
    let run = cli::blockwatch(&cfg.bin, &repo.dir, &[], None, &env, 30);
    let diags = run.diags().map_err(|e| format!("{e}; {}", run.summary()))?;
    let d = diags.iter().find(|d| d.code == "check-lua" && d.file == "probe.py").ok_or_else(|| format!("no probe diagnostic: {}", run.summary()))?;
    let text = d.data.get("lua_error").and_then(Value::as_str).ok_or("no lua_error")?;
    // Two explorations: at load time of the script and inside validate(); a function reachable in
    // either is reachable for the script (it can keep what it found at load time).
    let (mut set, mut states, mut edges) = (BTreeSet::new(), 0, 0);
    for half in text.split("\n=====CALL=====\n") {
        let mut lines = half.lines();
        let header = lines.next().unwrap_or("");
        let num = |key: &str| header.split_whitespace().find_map(|t| t.strip_prefix(key)).and_then(|v| v.parse::<u64>().ok()).unwrap_or(0);
        states += num("STATES=");
        edges += num("EDGES=");
        // `probe`, `at_load` are locals; `validate` does not exist yet at load time.
        set.extend(lines.map(normalise));
    }
    Ok((set, states, edges))
}

const ESCAPES: &[(&str, &str)] = &[
    ("io.open", "local f = io.open(CANARY, 'r'); return f ~= nil"),
    ("io.open-write", "local f = io.open(MARKER, 'w'); f:write('x'); f:close(); return true"),
    ("os.execute", "return os.execute('touch ' .. MARKER) ~= nil"),
    ("os.getenv", "return os.getenv('PATH') ~= nil"),
    ("os.remove", "return os.remove(CANARY) ~= nil"),
    ("require-io", "local m = require('io'); return m ~= nil"),
    ("require-os", "local m = require('os'); return m ~= nil"),
    ("package.loadlib", "return package.loadlib('libc.so.6', 'system') ~= nil"),
    ("dofile", "dofile(CANARY); return true"),
    ("loadfile", "local f = loadfile(CANARY); return f ~= nil"),
    ("load-with-env", "local f = load('return io or os or package or debug or require or dofile or loadfile', 'x', 't', _G); return f() ~= nil"),
    ("load-global-lookup", "local f = load('return _ENV.io'); return f() ~= nil"),
    ("string.dump-roundtrip", "local f = load(string.dump(function() return io end)); return f() ~= nil"),
    ("coroutine-env", "local co = coroutine.wrap(function() return io or os end); return co() ~= nil"),
    ("string-metatable", "local mt = getmetatable(''); return mt.__index.io ~= nil or (mt.__index.open ~= nil)"),
    ("debug.getregistry", "return debug.getregistry() ~= nil"),
    ("debug-upvalues", "local n, v = debug.getupvalue(print, 1); return n ~= nil"),
    ("collectgarbage-hostinfo", "return type(collectgarbage('count')) ~= 'number'"),
    ("print-is-stdout-only", "print('x'); return false"),
];

fn escape_script(canary: &str, marker: &str) -> String {
    // The attempts run twice: while the script is loaded and inside validate().
    let mut s = format!("local CANARY = {canary:?}\nlocal MARKER = {marker:?}\nlocal function attempts(phase)\n  local results = {{}}\n");
    for (name, body) in ESCAPES {
        s.push_str(&format!(
            "  do\n    local ok, res = pcall(function()\n      {body}\n    end)\n    results[#results + 1] = {name:?} .. '@' .. phase .. '=' .. ((ok and res) and 'ESCAPED' or 'blocked')\n  end\n"
        ));
    }
    s.push_str("  return table.concat(results, '\\n')\nend\nlocal at_load = attempts('load')\nfunction validate(ctx, content)\n  return at_load .. '\\n' .. attempts('call')\nend\n");
    s
}

pub fn run(cfg: &Cfg, sink: &Arc<Sink>) -> Report {
    let mut report = Report::new("for each value of BLOCKWATCH_LUA_MODE ∈ {unset, sandboxed, Sandboxed, SAFE, empty, 'unsafe ' (trailing blank), 0, safe, unsafe}: a probe script, run by the real CLI, does — once while it is being loaded and once inside validate() — a breadth-first search over the object graph reachable from _G, _ENV and the string metatable through table fields, keys and metatables (states = reachable tables/functions/userdata, transitions = edges followed) and returns every reachable function path; oracle: in the default class the set equals the allow-list (base minus dofile/loadfile/require, coroutine, table, string, utf8, math) and none of io/os/package/debug/require/dofile/loadfile is reachable; safe ⊇ io, os, package, require and has no debug, no package.loadlib; unsafe has debug and package.loadlib; plus 19 concrete escape attempts in every default-class mode with a canary file; non-trivial = every mode");
    report.assume("Lua has no ambient authority beyond values reachable from the script's environment; upvalues of library functions are not reachable without the debug library");
    let repo = Scratch::repo("c17");
    repo.write("probe.lua", PROBE);
    let script = repo.path("probe.lua").display().to_string();
    repo.write("probe.py", &format!("# <block name=\"probe\" check-lua=\"{script}\">\nx = 1\n# </block>\n"));
    let allowed: BTreeSet<String> = SANDBOX_ALLOWED.iter().map(|s| s.to_string()).collect();
    let mut total_states = 0u64;
    let mut total_edges = 0u64;
    let default_class: &[Option<&str>] = &[None, Some("sandboxed"), Some("Sandboxed"), Some("SAFE"), Some(""), Some("unsafe "), Some("0")];
    for mode in default_class.iter().copied().chain([Some("safe"), Some("unsafe")]) {
        let input = json!({"mode": mode});
        sink.exec();
        let (reachable, states, edges) = match run_probe(cfg, &repo, mode) {
            Ok(r) => r,
            Err(e) => {
                sink.fail(format!("C17:probe-failed:{mode:?}"), e, input);
                continue;
            }
        };
        total_states += states;
        total_edges += edges;
        sink.outcome(format!("{mode:?}:functions={}", reachable.len()));
        sink.nontrivial();
        let top = |p: &str| p.split('.').next().unwrap_or("").to_string();
        match mode {
            Some("safe") => {
                for must in ["io.open", "io.popen", "os.execute", "os.getenv", "os.remove", "package.searchers.1", "require"] {
                    if !reachable.iter().any(|p| p == must || (must == "package.searchers.1" && p.starts_with("package."))) {
                        sink.fail(format!("C17:safe-mode-lacks:{must}"), format!("reachable: {reachable:?}"), input.clone());
                    }
                }
                for p in &reachable {
                    if top(p) == "debug" {
                        sink.fail(format!("C17:safe-mode-exposes:{p}"), format!("{p} is reachable in safe mode (only unsafe may add debug)"), input.clone());
                    }
                }
                if !allowed.iter().all(|a| reachable.contains(a)) {
                    sink.fail("C17:safe-mode-lost-sandbox-functions", format!("missing: {:?}", allowed.difference(&reachable).collect::<Vec<_>>()), input.clone());
                }
            }
            Some("unsafe") => {
                for must in ["debug.getinfo", "package.loadlib", "io.open", "os.execute"] {
                    if !reachable.contains(must) {
                        sink.fail(format!("C17:unsafe-mode-lacks:{must}"), format!("reachable: {reachable:?}"), input.clone());
                    }
                }
            }
            _ => {
                for p in &reachable {
                    let t = top(p);
                    if FORBIDDEN_IN_SANDBOX.contains(&t.as_str()) {
                        sink.fail(format!("C17:sandbox-exposes:{t}"), format!("mode {mode:?}: {p} is reachable from the script's environment"), input.clone());
                    } else if !allowed.contains(p) && !["coroutine", "table", "string", "utf8", "math", "<string-metatable>"].contains(&t.as_str()) {
                        // Anything inside the five documented libraries (incl. compatibility
                        // functions such as math.pow and the string metatable's coercion
                        // metamethods) is fine; a top-level function must be on the base list.
                        sink.fail(format!("C17:sandbox-exposes-unlisted:{p}"), format!("mode {mode:?}: {p} is reachable but is neither a base function nor part of coroutine/table/string/utf8/math"), input.clone());
                    }
                }
                for a in &allowed {
                    if !reachable.contains(a) {
                        sink.fail(format!("C17:sandbox-lacks:{a}"), format!("mode {mode:?}: {a} of the documented libraries is not reachable"), input.clone());
                    }
                }
            }
        }
        sink.sample(|| json!({"mode": mode, "reachable_values": states, "edges": edges, "reachable_functions": reachable.len(), "first_functions": reachable.iter().take(8).collect::<Vec<_>>()}));
    }
    report.phase(Phase { name: "object-graph reachability per mode".into(), states: total_states.max(1), transitions: total_edges.max(1), max_depth: 9, exhaustive: true, bound: "transitive closure from _G, _ENV, the string metatable and every reachable metatable, 9 mode values".into() });
    // Escape battery.
    let mut n = 0u64;
    for mode in default_class {
        let canary = repo.path("canary.lua");
        let marker = repo.path("marker.txt");
        repo.write("canary.lua", "CANARY_RAN = true\n");
        let _ = std::fs::remove_file(&marker);
        repo.write("escape.lua", &escape_script(&canary.display().to_string(), &marker.display().to_string()));
        repo.write("probe.py", &format!("# <block name=\"probe\" check-lua=\"{}\">\nx = 1\n# </block>\n", repo.path("escape.lua").display()));
        let env: Vec<(&str, &str)> = mode.map(|m| vec![("BLOCKWATCH_LUA_MODE", m)]).unwrap_or_default();
        sink.exec();
        let run = cli::blockwatch(&cfg.bin, &repo.dir, &[], None, &env, 30);
        let input = json!({"escape_battery_mode": mode});
        let text = run.diags().ok().and_then(|d| d.into_iter().find(|d| d.code == "check-lua")).and_then(|d| d.data.get("lua_error").and_then(Value::as_str).map(str::to_string));
        let Some(text) = text else {
            sink.fail(format!("C17:escape-battery-failed:{mode:?}"), format!("{}", run.summary()), input);
            continue;
        };
        for line in text.lines() {
            n += 1;
            if let Some((name, verdict)) = line.split_once('=') {
                sink.outcome(format!("escape:{verdict}"));
                if verdict != "blocked" {
                    sink.fail(format!("C17:escape:{name}"), format!("mode {mode:?}: attempt `{name}` succeeded"), input.clone());
                }
            }
        }
        if marker.exists() || std::fs::read_to_string(&canary).ok().as_deref() != Some("CANARY_RAN = true\n") {
            sink.fail("C17:escape:file-system-touched", format!("mode {mode:?}: marker exists: {}, canary intact: {}", marker.exists(), canary.exists()), input.clone());
        }
    }
    // Native-module loading: blocked in safe mode (mlua keeps a `package.loadlib` stub that raises),
    // available only in unsafe mode.
    repo.write(
        "native.lua",
        "function validate(ctx, content)\n  local ok, f = pcall(package.loadlib, '/lib/x86_64-linux-gnu/libc.so.6', 'getpid')\n  local okr, err = pcall(require, 'nosuch_c_module')\n  return 'loadlib=' .. ((ok and type(f) == 'function') and 'works' or 'blocked') .. ' debug=' .. tostring(debug ~= nil)\nend\n",
    );
    repo.write("probe.py", &format!("# <block name=\"probe\" check-lua=\"{}\">\nx = 1\n# </block>\n", repo.path("native.lua").display()));
    for (mode, want) in [("safe", "loadlib=blocked debug=false"), ("unsafe", "loadlib=works debug=true")] {
        n += 1;
        sink.exec();
        let run = cli::blockwatch(&cfg.bin, &repo.dir, &[], None, &[("BLOCKWATCH_LUA_MODE", mode)], 30);
        let got = run.diags().ok().and_then(|d| d.into_iter().find(|d| d.code == "check-lua")).and_then(|d| d.data.get("lua_error").and_then(Value::as_str).map(str::to_string));
        sink.outcome(format!("native:{mode}:{got:?}"));
        if got.as_deref() != Some(want) {
            sink.fail(format!("C17:native-module-loading:{mode}"), format!("mode {mode}: {got:?}, expected {want:?}; {}", run.summary()), json!({"native": mode}));
        }
    }
    report.phase(Phase { name: "escape battery".into(), states: n.max(1), transitions: n.max(1), max_depth: 1, exhaustive: true, bound: format!("{} attempts × {} default-class mode values", ESCAPES.len(), default_class.len()) });
    report
}

pub fn replay(cfg: &Cfg, _input: &Value, sink: &Arc<Sink>) {
    let _ = run(cfg, sink);
}
