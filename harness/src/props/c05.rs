//! C05: tag syntax round trip. E1 over attribute lists: a state is a list of (name, value form,
//! separator, `=` layout) choices; every state is printed as a start tag inside each host comment
//! form with each surrounding noise and closing spelling, parsed by the real code and compared
//! with the attribute list it was printed from. Plus the look-alike family and end-tag spellings.

use crate::core::{Cfg, Report, Sink, Tier};
use crate::engine::{self, Grid, Space};
use crate::librun::Outcome;
use crate::props::c03::run_list;
use crate::props::rules::first_line;
use serde_json::{Value, json};
use std::collections::BTreeMap;
use std::sync::Arc;

const NAMES: &[&str] = &["a", "b-1", "k_2", "é", "\u{0}dup", "d--x"]; // the last means "same name as the first attribute"
/// (printed value incl. quotes or None for a bare attribute, parsed value)
const VALUES: &[(Option<&str>, &str)] = &[
    (None, ""),
    (Some("v1"), "v1"),
    (Some("é1"), "é1"),
    (Some("v-1_x"), "v-1_x"),
    (Some("\"\""), ""),
    (Some("\"x y\""), "x y"),
    (Some("\">\""), ">"),
    (Some("\"'\""), "'"),
    (Some("\"=<\""), "=<"),
    (Some("'\"'"), "\""),
    (Some("'>'"), ">"),
    (Some("\"</block>\""), "</block>"),
    (Some("\"é ≤\""), "é ≤"),
    (Some("'<block name=\"x\">'"), "<block name=\"x\">"),
    // Text that looks like comment delimiters of the host languages.
    (Some("\"a--b // c # d\""), "a--b // c # d"),
    (Some("x--y"), "x--y"),
];
// The last separator (CR LF) is only used by the long-list alphabet.
const SEPS: &[&str] = &[" ", "\t ", "\n", "\r\n"];
const EQS: &[&str] = &["=", " = ", "\n=\n"];
const CLOSINGS: &[&str] = &[">", " >", "\n>"];
const NOISE: &[&str] = &["", "text", "<b>", "a < b", "<blockquote>", "<!--", "it's \"", "<block", "</ block"];

#[derive(Clone, Copy, Debug, PartialEq, Eq, Hash)]
struct Attr {
    name: u8,
    value: u8,
    sep: u8,
    eq: u8,
}

fn attr_alphabet(reduced: bool) -> Vec<Attr> {
    let mut v = Vec::new();
    for name in 0..NAMES.len() as u8 {
        for value in 0..VALUES.len() as u8 {
            for sep in 0..3u8 {
                if reduced && sep != 0 {
                    continue;
                }
                if VALUES[value as usize].0.is_none() {
                    v.push(Attr { name, value, sep, eq: 0 });
                } else {
                    for eq in 0..EQS.len() as u8 {
                        if reduced && eq != 0 {
                            continue;
                        }
                        v.push(Attr { name, value, sep, eq });
                    }
                }
            }
        }
    }
    v
}

fn name_of(attrs: &[Attr], i: usize) -> &'static str {
    let n = NAMES[attrs[i].name as usize];
    if n.starts_with('\u{0}') { if i == 0 { "dup0" } else { name_of(attrs, 0) } } else { n }
}

fn print_tag(attrs: &[Attr], closing: &str) -> String {
    let mut s = String::from("<block");
    for (i, a) in attrs.iter().enumerate() {
        s.push_str(SEPS[a.sep as usize]);
        s.push_str(name_of(attrs, i));
        if let Some(printed) = VALUES[a.value as usize].0 {
            s.push_str(EQS[a.eq as usize]);
            s.push_str(printed);
        }
    }
    s.push_str(closing);
    s
}

fn expected_attrs(attrs: &[Attr]) -> Vec<(String, String)> {
    let mut map = BTreeMap::new();
    for (i, a) in attrs.iter().enumerate() {
        map.insert(name_of(attrs, i).to_string(), VALUES[a.value as usize].1.to_string());
    }
    map.into_iter().collect()
}

#[derive(Clone, Copy, Debug, PartialEq, Eq)]
enum Host {
    Hash,
    Slash,
    Html,
    /// `// …` in JavaScript.
    SlashLine,
    /// `-- …` in SQL.
    SqlLine,
    /// `/// …` in Rust.
    RustDoc,
}

const HOSTS: [Host; 6] = [Host::Hash, Host::Slash, Host::Html, Host::SlashLine, Host::SqlLine, Host::RustDoc];

impl Host {
    fn file(self) -> &'static str {
        match self {
            Host::Hash => "x.py",
            Host::Slash | Host::SlashLine => "x.js",
            Host::Html => "x.html",
            Host::SqlLine => "x.sql",
            Host::RustDoc => "x.rs",
        }
    }
    fn single_line(self) -> bool {
        !matches!(self, Host::Slash | Host::Html)
    }
    fn wrap(self, inner: &str) -> (String, usize) {
        match self {
            Host::Hash => (format!("# {inner}"), 2),
            Host::Slash => (format!("/* {inner} */"), 3),
            Host::Html => (format!("<!-- {inner} -->"), 5),
            Host::SlashLine => (format!("// {inner}"), 3),
            Host::SqlLine => (format!("-- {inner}"), 3),
            Host::RustDoc => (format!("/// {inner}"), 4),
        }
    }
    fn code(self) -> &'static str {
        match self {
            Host::Hash => "x = 1",
            Host::Slash | Host::SlashLine => "let x = 1;",
            Host::Html => "<p>t</p>",
            Host::SqlLine => "SELECT 1;",
            Host::RustDoc => "const X: u8 = 1;",
        }
    }
}

struct Case {
    /// Expected blocks: (attributes, byte offset of `<`).
    text: String,
    expected: Vec<(Vec<(String, String)>, usize)>,
}

impl Case {
    fn new() -> Self {
        Self { text: String::new(), expected: Vec::new() }
    }
    /// One comment holding `before tag-text after`, where tag-text is `<start tag> </block>`.
    fn pair(&mut self, host: Host, before: &str, tag: &str, after: &str, attrs: Vec<(String, String)>, end_tag: &str) {
        let lead = if before.is_empty() { String::new() } else { format!("{before} ") };
        let tail = if after.is_empty() { String::new() } else { format!(" {after}") };
        let inner = format!("{lead}{tag} {end_tag}{tail}");
        let (comment, prefix) = host.wrap(&inner);
        let lt = self.text.len() + prefix + lead.len();
        self.text.push_str(&comment);
        self.text.push('\n');
        self.text.push_str(host.code());
        self.text.push('\n');
        self.expected.push((attrs, lt));
    }
    /// A comment with no block tag in it.
    fn plain(&mut self, host: Host, inner: &str) {
        let (comment, _) = host.wrap(inner);
        self.text.push_str(&comment);
        self.text.push('\n');
        self.text.push_str(host.code());
        self.text.push('\n');
    }
    fn position(&self, offset: usize) -> (usize, usize) {
        let before = &self.text[..offset];
        (before.matches('\n').count() + 1, offset - before.rfind('\n').map(|i| i + 1).unwrap_or(0) + 1)
    }
}

fn judge(case: &Case, host: Host, sink: &Sink, input: &Value, what: &str) {
    sink.exec();
    let outcome = run_list(host.file(), &case.text);
    match &outcome {
        Outcome::Report { blocks, .. } => {
            let mut ok = blocks.len() == case.expected.len();
            if !ok {
                sink.fail(
                    format!("C05:{what}:{}", if blocks.len() > case.expected.len() { "extra-block" } else { "missing-block" }),
                    format!("{:?}: expected {} blocks, found {}\n--- file ---\n{}", host, case.expected.len(), blocks.len(), case.text),
                    input.clone(),
                );
            } else {
                for ((attrs, lt), got) in case.expected.iter().zip(blocks) {
                    if &got.attributes != attrs {
                        ok = false;
                        sink.fail(format!("C05:{what}:wrong-attributes"), format!("{host:?}: printed attributes {attrs:?}, parsed {:?}\n--- file ---\n{}", got.attributes, case.text), input.clone());
                        break;
                    }
                    if got.start_tag_start != case.position(*lt) {
                        ok = false;
                        sink.fail(format!("C05:{what}:wrong-position"), format!("{host:?}: `<` at {:?}, reported {:?}\n--- file ---\n{}", case.position(*lt), got.start_tag_start, case.text), input.clone());
                        break;
                    }
                }
            }
            sink.outcome(format!("{what}:{host:?}:{}", if ok { "agree" } else { "differ" }));
        }
        Outcome::Error { message, .. } => {
            sink.outcome(format!("{what}:{host:?}:error"));
            sink.fail(format!("C05:{what}:error"), format!("{host:?}: {}\n--- file ---\n{}", first_line(message), case.text), input.clone());
        }
        Outcome::Panic { message } => {
            sink.outcome(format!("{what}:{host:?}:panic"));
            sink.fail(format!("C05:panic:{}", first_line(message)), format!("{host:?}: panic {message}\n--- file ---\n{}", case.text), input.clone());
        }
    }
}

/// The files (one per host) that print `attrs` in every closing spelling and noise context.
fn build_cases(attrs: &[Attr]) -> Vec<(Host, Case)> {
    let expected = expected_attrs(attrs);
    let multiline_layout = attrs.iter().any(|a| SEPS[a.sep as usize].contains('\n') || (VALUES[a.value as usize].0.is_some() && EQS[a.eq as usize].contains('\n')));
    let mut out = Vec::new();
    for host in HOSTS {
        // A value holding `--` cannot sit in an HTML comment.
        if host == Host::Html && attrs.iter().enumerate().any(|(i, a)| VALUES[a.value as usize].1.contains("--") || name_of(attrs, i).contains("--")) {
            continue;
        }
        let mut case = Case::new();
        for closing in CLOSINGS {
            if host.single_line() && (multiline_layout || closing.contains('\n')) {
                continue;
            }
            case.pair(host, "", &print_tag(attrs, closing), "", expected.clone(), "</block>");
        }
        if !(host.single_line() && multiline_layout) {
            for (i, noise) in NOISE.iter().enumerate().skip(1) {
                if host == Host::Html && *noise == "<!--" {
                    continue; // `<!--` inside an HTML comment is a parse error of the host language
                }
                // The tag after the noise, and the tag before the noise (rotating which is which).
                let (before, after) = if i % 2 == 0 { (*noise, "") } else { (*noise, *noise) };
                case.pair(host, before, &print_tag(attrs, ">"), after, expected.clone(), "</block>");
            }
        }
        if !case.expected.is_empty() {
            out.push((host, case));
        }
    }
    out
}

fn check_attrs(attrs: &[Attr], cfg: Option<&Cfg>, sink: &Sink) {
    let input = json!({"attrs": attrs.iter().map(|a| json!([a.name, a.value, a.sep, a.eq])).collect::<Vec<_>>()});
    let expected = expected_attrs(attrs);
    for (host, case) in build_cases(attrs) {
        judge(&case, host, sink, &input, "roundtrip");
        // CLI conformance slice: lists of ≤1 attribute also go through the real binary, whose
        // `list` JSON must show the same blocks, positions and attributes.
        if let Some(cfg) = cfg {
            if attrs.len() <= 1 {
                let files = vec![(host.file().to_string(), case.text.clone())];
                let lib = crate::librun::run(&crate::librun::Input { files: files.clone(), ..Default::default() });
                crate::props::conform::cli_agrees(cfg, &files, &lib, &[], "C05", &input, sink);
            }
        }
    }
    if !attrs.is_empty() {
        sink.nontrivial();
    }
    if attrs.len() == 2 {
        sink.sample(|| json!({"tag": print_tag(attrs, ">"), "expected_attributes": expected}));
    }
}

struct AttrSpace {
    cfg: Cfg,
    full: Vec<Attr>,
    reduced: Vec<Attr>,
    /// Positions 0..full_depth use the full alphabet, later ones the reduced one.
    full_depth: usize,
    max_len: usize,
}

impl Space for AttrSpace {
    type State = Vec<u16>;
    fn init(&self) -> Vec<Vec<u16>> {
        vec![Vec::new()]
    }
    fn succ(&self, state: &Vec<u16>) -> Vec<Vec<u16>> {
        if state.len() >= self.max_len {
            return Vec::new();
        }
        let n = if state.len() < self.full_depth { self.full.len() } else { self.reduced.len() };
        (0..n as u16)
            .map(|i| {
                let mut next = state.clone();
                next.push(i);
                next
            })
            .collect()
    }
    fn check(&self, state: &Vec<u16>, sink: &Sink) {
        let attrs: Vec<Attr> = state.iter().enumerate().map(|(i, &a)| if i < self.full_depth { self.full[a as usize] } else { self.reduced[a as usize] }).collect();
        check_attrs(&attrs, Some(&self.cfg), sink);
    }
}

/// Look-alikes: text that must never be taken for a block tag.
const LOOKALIKES: &[&str] = &[
    "<blockquote>", "<block/>", "<Block>", "< block>", "<blocks>", "<BLOCK name=\"x\">", "<block name=\"x>", "<block name='x>", "<block name=\"x\"",
    "<block name=\"x\"/>", "<blockname=\"x\">", "<block name=\"x\" / >", "</blockquote>", "</Block>", "</block", "<\\/block>", "</blocks>",
];
const END_TAGS: &[&str] = &["</block>", "</ block >", "</block\n>", "</\tblock>", "</block >", "</ block>"];

#[derive(Clone, Debug, PartialEq, Eq, Hash)]
enum Extra {
    /// look-alike index, noise index, host index, with a real block beside it
    Lookalike(usize, usize, usize, bool),
    /// end tag index, noise index, host index, end tag in a comment of its own
    EndTag(usize, usize, usize, bool),
}

fn check_extra(extra: &Extra, sink: &Sink) {
    let hosts = HOSTS;
    match extra {
        Extra::Lookalike(l, n, h, beside) => {
            let (look, noise, host) = (LOOKALIKES[*l], NOISE[*n], hosts[*h]);
            if host == Host::Html && (noise == "<!--" || look.contains("--")) {
                return;
            }
            let input = json!({"lookalike": look, "noise": noise, "host": format!("{host:?}"), "beside": beside});
            let mut case = Case::new();
            if *beside {
                case.pair(host, "", "<block name=\"real\">", "", vec![("name".into(), "real".into())], "</block>");
            }
            let inner = if noise.is_empty() { look.to_string() } else { format!("{noise} {look} {noise}") };
            case.plain(host, &inner);
            if *beside {
                case.pair(host, "", "<block name=\"real2\">", "", vec![("name".into(), "real2".into())], "</block>");
            }
            judge(&case, host, sink, &input, "lookalike");
            sink.nontrivial();
            sink.sample(|| input);
        }
        Extra::EndTag(e, n, h, own_comment) => {
            let (end, noise, host) = (END_TAGS[*e], NOISE[*n], hosts[*h]);
            if host.single_line() && end.contains('\n') {
                return;
            }
            if host == Host::Html && noise == "<!--" {
                return;
            }
            let input = json!({"end_tag": end, "noise": noise, "host": format!("{host:?}"), "own_comment": own_comment});
            let mut case = Case::new();
            if *own_comment {
                // Start tag and end tag in separate comments: the end-tag comment holds nothing
                // but noise and the (possibly spaced) end tag.
                let (start, prefix) = host.wrap("<block name=\"e\">");
                let lt = case.text.len() + prefix;
                case.text.push_str(&format!("{start}\n{}\n", host.code()));
                case.expected.push((vec![("name".into(), "e".into())], lt));
                let inner = if noise.is_empty() || noise.contains("block") { end.to_string() } else { format!("{noise} {end} {noise}") };
                case.plain(host, &inner);
            } else {
                case.pair(host, noise, "<block name=\"e\">", noise, vec![("name".into(), "e".into())], end);
            }
            judge(&case, host, sink, &input, "endtag");
            sink.nontrivial();
        }
    }
}

/// Every line-comment form of every grammar's kit, with attribute values (quoted and unquoted)
/// that contain the form's own comment marker: (kit index, form index).
fn check_marker_in_value(case: &(usize, usize), sink: &Sink) {
    use crate::props::langkit::{FormKind, KITS};
    let kit = &KITS[case.0];
    let form = kit.forms[case.1];
    if form.kind != FormKind::Line {
        return;
    }
    let m = form.open;
    let quoted = format!("see {m} and {m}{m} end");
    // Unquoted values are limited to letters, digits, `-` and `_`: only a marker made of dashes
    // can sit in one.
    let unquoted = if m.chars().all(|c| c == '-') { format!("u{m}{m}v") } else { "uv".to_string() };
    let tag = format!("<block name=\"a\" note=\"{quoted}\" k={unquoted} last=\"{m}\">");
    let text = format!("{}{m} {tag}\n{}\n{m} </block> {m} trailing\n{}", kit.prologue, kit.code[0], kit.epilogue);
    let input = json!({"marker_in_value": [case.0, case.1]});
    sink.exec();
    let outcome = run_list(kit.files[0], &text);
    let expected: Vec<(String, String)> = vec![("k".into(), unquoted.clone()), ("last".into(), m.to_string()), ("name".into(), "a".into()), ("note".into(), quoted.clone())];
    match &outcome {
        Outcome::Report { blocks, .. } => {
            let ok = blocks.len() == 1 && blocks[0].attributes == expected;
            sink.outcome(format!("marker-in-value:{}", if ok { "agree" } else { "differ" }));
            if !ok {
                sink.fail(format!("C05:marker-in-value:wrong-attributes:{}", m), format!("{} ({}): printed {expected:?}, parsed {:?}\n--- file ---\n{text}", kit.files[0], kit.grammar, blocks.iter().map(|b| b.attributes.clone()).collect::<Vec<_>>()), input);
            }
        }
        Outcome::Error { message, .. } => sink.fail(format!("C05:marker-in-value:error:{}", m), format!("{}: {}\n--- file ---\n{text}", kit.files[0], first_line(message)), input),
        Outcome::Panic { message } => sink.fail(format!("C05:panic:{}", first_line(message)), format!("{}: panic {message}\n--- file ---\n{text}", kit.files[0]), input),
    }
    sink.nontrivial();
}

pub fn run(cfg: &Cfg, sink: &Arc<Sink>) -> Report {
    let mut report = Report::new("states = attribute lists; an attribute is (name ∈ {a, b-1, k_2, é, duplicate of the first}, value form ∈ {bare, unquoted, empty, with space, `>`, other quote, `=<`, `</block>`, non-ASCII, a whole start tag in quotes}, separator ∈ {space, tab+space, newline}, `=` layout ∈ {=, spaced, on its own line}); each state is printed into `#`, `/* */`, `<!-- -->`, `//`, SQL `--` and Rust `///` hosts with 3 closing spellings and 8 noises before/after, parsed by the real code and compared with the printed list (last duplicate wins) and the position of `<`; plus every look-alike × noise × host alone and beside real blocks, and every end-tag spelling; non-trivial = at least one attribute / every look-alike and end-tag case");
    report.assume("tree-sitter delivers the host comments (C03 covers that)");
    let full = attr_alphabet(false);
    let reduced = attr_alphabet(true);
    let (max_len, full_depth) = match cfg.tier {
        Tier::Quick => (2, 2),
        Tier::Thorough => (3, 2),
    };
    report.phase(engine::explore(
        "attribute lists",
        &format!("0..{max_len} attributes; the first {full_depth} over all {} (name, value, separator, = layout) variants, later ones over the {} variants with single-space separator and bare =", full.len(), reduced.len()),
        AttrSpace { cfg: cfg.clone(), full: full.clone(), reduced: reduced.clone(), full_depth, max_len },
        sink,
        cfg.threads,
        cfg.tier == Tier::Thorough,
    ));
    // Long lists (the statement goes up to 6 attributes) over five variants, one per class: bare,
    // quoted with a space after a newline separator, unquoted non-ASCII with a spaced `=`, a
    // duplicate of the first name holding `>`, and a quoted end tag after a tab.
    let pick = |name: u8, value: u8, sep: u8, eq: u8| Attr { name, value, sep, eq };
    let small = vec![pick(0, 0, 0, 0), pick(1, 5, 2, 0), pick(3, 2, 0, 1), pick(4, 6, 3, 0), pick(2, 11, 1, 0)];
    let long_len = cfg.tier.pick(5, 6);
    report.phase(engine::explore(
        "long attribute lists",
        &format!("every list of 0..{long_len} attributes over 5 variants (bare; quoted value with a space, newline separator; unquoted non-ASCII value, spaced =; duplicate of the first name holding `>` after a CR LF; quoted `</block>` after a tab)"),
        AttrSpace { cfg: cfg.clone(), full: small.clone(), reduced: small, full_depth: long_len, max_len: long_len },
        sink,
        cfg.threads,
        false,
    ));
    report.cap(cfg.tier.pick("3 attributes over the full alphabet only in the thorough tier; lists of 4–5 attributes over 5 variants, 6 in the thorough tier", "the third attribute of the full alphabet uses single-space separators and a bare `=`; lists of 4–6 attributes over 5 variants"));
    let mut marker_cases = Vec::new();
    for (ki, kit) in crate::props::langkit::KITS.iter().enumerate() {
        for fi in 0..kit.forms.len() {
            marker_cases.push((ki, fi));
        }
    }
    report.phase(engine::explore(
        "comment marker inside attribute values, every line-comment form of every grammar",
        "23 grammars × their line-comment forms: quoted and unquoted values holding the form's own marker once and doubled",
        Grid { cases: marker_cases, check: |c: &(usize, usize), sink: &Sink| check_marker_in_value(c, sink) },
        sink,
        cfg.threads,
        false,
    ));
    let mut cases = Vec::new();
    for l in 0..LOOKALIKES.len() {
        for n in 0..NOISE.len() {
            for h in 0..HOSTS.len() {
                cases.push(Extra::Lookalike(l, n, h, false));
                cases.push(Extra::Lookalike(l, n, h, true));
            }
        }
    }
    for e in 0..END_TAGS.len() {
        for n in 0..NOISE.len() {
            for h in 0..HOSTS.len() {
                cases.push(Extra::EndTag(e, n, h, false));
                cases.push(Extra::EndTag(e, n, h, true));
            }
        }
    }
    let n = cases.len();
    report.phase(engine::explore(
        "look-alikes and end-tag spellings",
        &format!("{n} cases: {} look-alikes × {} noises × 3 hosts × {{alone, beside real blocks}} + {} end-tag spellings × noises × hosts", LOOKALIKES.len(), NOISE.len(), END_TAGS.len()),
        Grid { cases, check: |c: &Extra, sink: &Sink| check_extra(c, sink) },
        sink,
        cfg.threads,
        false,
    ));
    report
}

pub fn replay(cfg: &Cfg, input: &Value, sink: &Arc<Sink>) {
    if let Some(c) = input.get("marker_in_value").and_then(Value::as_array) {
        check_marker_in_value(&(c[0].as_u64().unwrap_or(0) as usize, c[1].as_u64().unwrap_or(0) as usize), sink);
        return;
    }
    if let Some(list) = input.get("attrs").and_then(Value::as_array) {
        let attrs: Vec<Attr> = list
            .iter()
            .filter_map(|v| {
                let a = v.as_array()?;
                Some(Attr { name: a[0].as_u64()? as u8, value: a[1].as_u64()? as u8, sep: a[2].as_u64()? as u8, eq: a[3].as_u64()? as u8 })
            })
            .collect();
        check_attrs(&attrs, Some(cfg), sink);
        return;
    }
    let host = |v: &Value| HOSTS.iter().position(|h| Some(format!("{h:?}").as_str()) == v.as_str()).unwrap_or(0);
    let noise = NOISE.iter().position(|n| Some(*n) == input["noise"].as_str()).unwrap_or(0);
    if let Some(look) = input.get("lookalike").and_then(Value::as_str) {
        if let Some(l) = LOOKALIKES.iter().position(|x| *x == look) {
            check_extra(&Extra::Lookalike(l, noise, host(&input["host"]), input["beside"].as_bool().unwrap_or(false)), sink);
        }
    } else if let Some(end) = input.get("end_tag").and_then(Value::as_str) {
        if let Some(e) = END_TAGS.iter().position(|x| *x == end) {
            check_extra(&Extra::EndTag(e, noise, host(&input["host"]), input["own_comment"].as_bool().unwrap_or(false)), sink);
        }
    }
}
