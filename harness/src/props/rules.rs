//! C06–C09: rule semantics. E1 over line sequences: every sequence of content lines up to the
//! bound, over an alphabet with one representative per shortcut the rule could take, is run
//! through the real parse+validate pipeline under every rule configuration and compared with a
//! boring reference written from the property text.

use crate::core::{Cfg, Phase, Report, Sink, Tier};
use crate::engine::{self, Sequences};
use crate::librun::{self, Diag, Input, Outcome};
use crate::props::kit::{Batch, BatchHost, quote};
use regex::Regex;
use serde_json::{Value, json};
use std::sync::Arc;
use std::sync::atomic::{AtomicBool, Ordering};

/// Line ends of the rendered files: the CRLF phases flip this (phases run one after another). A
/// carriage return before the line feed is trailing white space of the line, so every expected
/// verdict, line and column stays what it is with LF.
static CRLF: AtomicBool = AtomicBool::new(false);

fn crlf() -> bool {
    CRLF.load(Ordering::Relaxed)
}

/// The rendered files start with a UTF-8 byte order mark (the BOM phases flip this): three more
/// bytes on line 1, which holds a companion's tag, never a judged position.
static BOM: AtomicBool = AtomicBool::new(false);

fn bom() -> bool {
    BOM.load(Ordering::Relaxed)
}

fn with_bom<T>(f: impl FnOnce() -> T) -> T {
    BOM.store(true, Ordering::Relaxed);
    let out = f();
    BOM.store(false, Ordering::Relaxed);
    out
}

fn run_file(name: &str, text: &str) -> Outcome {
    let text = if crlf() { text.replace('\n', "\r\n") } else { text.to_string() };
    let text = if bom() { format!("\u{feff}{text}") } else { text };
    librun::run(&Input { files: vec![(name.to_string(), text)], ..Default::default() })
}

/// Host of the batched files: the layout phases flip this to the Markdown host whose start-tag
/// comment goes on for two lines after the tag.
static MD_HOST: AtomicBool = AtomicBool::new(false);
/// The end tag's comment shares the line of the last content line.
static END_SHARED: AtomicBool = AtomicBool::new(false);

fn md_host() -> bool {
    MD_HOST.load(Ordering::Relaxed)
}

fn end_shared() -> bool {
    END_SHARED.load(Ordering::Relaxed)
}

fn with_md_host<T>(f: impl FnOnce() -> T) -> T {
    MD_HOST.store(true, Ordering::Relaxed);
    let out = f();
    MD_HOST.store(false, Ordering::Relaxed);
    out
}

fn with_end_shared<T>(f: impl FnOnce() -> T) -> T {
    END_SHARED.store(true, Ordering::Relaxed);
    let out = f();
    END_SHARED.store(false, Ordering::Relaxed);
    out
}

/// Violating blocks of the other synchronous validators: every batched file carries all of them
/// (one before, the others after the blocks under test), so that whatever collects and merges the
/// validators' results per file has something to merge, and each must report exactly once.
const COMPANIONS: &[(&str, &str, &[&str])] = &[
    ("keep-sorted", "keep-sorted", &["q2", "q1"]),
    ("keep-unique", "keep-unique", &["q1", "q1"]),
    ("line-pattern", "line-pattern=\"^z\"", &["q1"]),
    ("line-count", "line-count=\"<1\"", &["q1"]),
];

fn new_batch(own: &str) -> Batch {
    let mut b = Batch::with_host(if md_host() { BatchHost::MdMulti } else if end_shared() { BatchHost::PyEndShared } else { BatchHost::Py });
    let (code, attrs, lines) = COMPANIONS.iter().rev().find(|c| c.0 != own).expect("companion");
    b.companion(code, attrs, lines);
    b
}

fn close_batch(b: &mut Batch, own: &str) {
    let leading = b.companions.first().map(|c| c.0.clone()).unwrap_or_default();
    for (code, attrs, lines) in COMPANIONS.iter().filter(|c| c.0 != own && c.0 != leading) {
        b.companion(code, attrs, lines);
    }
}

/// Every companion block must have produced exactly one diagnostic of its code.
fn check_companions(prop: &str, batch: &Batch, diags: &[Diag], sink: &Sink, input: &Value) {
    for (i, (code, from, to)) in batch.companions.iter().enumerate() {
        let n = diags.iter().filter(|d| d.code == *code && batch.companion_at(d.range.0 as usize) == Some(i)).count();
        if n != 1 {
            sink.fail(format!("{prop}:companion-diagnostics:{code}:{n}"), format!("the violating {code} block at lines {from}-{to} of the same file has {n} diagnostics instead of 1"), input.clone());
        }
    }
}

/// Replays run under the line ends and host recorded in the input.
fn with_flags(input: &Value, f: impl FnOnce()) {
    CRLF.store(input["crlf"].as_bool() == Some(true), Ordering::Relaxed);
    MD_HOST.store(input["md_host"].as_bool() == Some(true), Ordering::Relaxed);
    BOM.store(input["bom"].as_bool() == Some(true), Ordering::Relaxed);
    END_SHARED.store(input["end_shared"].as_bool() == Some(true), Ordering::Relaxed);
    f();
    END_SHARED.store(false, Ordering::Relaxed);
    CRLF.store(false, Ordering::Relaxed);
    MD_HOST.store(false, Ordering::Relaxed);
    BOM.store(false, Ordering::Relaxed);
}

/// The content lines as they stand in the rendered file: with the end tag sharing the last
/// content line that line is followed by the two blanks that precede the end tag's comment (they
/// are content). `None`: the sequence cannot be rendered in the current host (a `#` on the last
/// line would start the comment early).
fn lines_in_host(lines: &[String]) -> Option<Vec<String>> {
    let mut v = lines.to_vec();
    if end_shared() {
        if let Some(last) = v.last_mut() {
            if last.contains('#') {
                return None;
            }
            last.push_str("  ");
        }
    }
    Some(v)
}

fn with_crlf<T>(f: impl FnOnce() -> T) -> T {
    CRLF.store(true, Ordering::Relaxed);
    let out = f();
    CRLF.store(false, Ordering::Relaxed);
    out
}

/// Compiled patterns of the reference, cached per thread (compiling Unicode classes is the
/// dominant cost of a state otherwise).
fn cached_regex(p: &str) -> Regex {
    thread_local! {
        static CACHE: std::cell::RefCell<std::collections::HashMap<String, Regex>> = Default::default();
    }
    CACHE.with(|c| c.borrow_mut().entry(p.to_string()).or_insert_with(|| Regex::new(p).unwrap()).clone())
}

fn is_blank(s: &str) -> bool {
    s.chars().all(char::is_whitespace)
}

/// (trimmed text, 1-based first byte column, 1-based last byte column) — written with explicit
/// char scanning rather than `str::trim`.
fn trimmed(line: &str) -> Option<(String, usize, usize)> {
    let first = line.char_indices().find(|(_, c)| !c.is_whitespace())?.0;
    let (last_idx, last_char) = line.char_indices().filter(|(_, c)| !c.is_whitespace()).last()?;
    let end = last_idx + last_char.len_utf8();
    Some((line[first..end].to_string(), first + 1, end))
}

/// Key of a line under an optional regex: `value` group, else whole match; (key, first col, last col).
fn regex_key(line: &str, re: &Regex) -> Option<(String, usize, usize)> {
    let caps = re.captures(line)?;
    let m = caps.name("value").or_else(|| caps.get(0))?;
    Some((m.as_str().to_string(), m.start() + 1, m.end()))
}

struct Key {
    line_idx: usize,
    text: String,
    col_start: usize,
    col_end: usize,
}

fn keys(lines: &[String], pattern: Option<&Regex>) -> Vec<Key> {
    lines
        .iter()
        .enumerate()
        .filter_map(|(i, l)| {
            let k = match pattern {
                None => trimmed(l),
                Some(re) => regex_key(l, re),
            }?;
            Some(Key { line_idx: i, text: k.0, col_start: k.1, col_end: k.2 })
        })
        .collect()
}

fn diag_lines(d: &Diag) -> String {
    format!("{}:{}-{}:{} {}", d.range.0, d.range.1, d.range.2, d.range.3, d.code)
}

/// Attributes `diags` of `code` to the blocks of `batch` by the line they point at.
fn per_block<'a>(batch: &Batch, diags: &'a [Diag], code: &str, by_tag: bool) -> (Vec<Vec<&'a Diag>>, Vec<&'a Diag>) {
    let mut result: Vec<Vec<&Diag>> = vec![Vec::new(); batch.blocks.len()];
    let mut stray = Vec::new();
    for d in diags {
        if batch.companion_at(d.range.0 as usize).is_some_and(|i| batch.companions[i].0 == d.code) {
            continue;
        }
        let idx = if by_tag { batch.block_with_tag_at(d.range.0 as usize) } else { batch.block_at(d.range.0 as usize) };
        match idx {
            Some(i) if d.code == code => result[i].push(d),
            _ => stray.push(d),
        }
    }
    (result, stray)
}

fn common_failure(prop: &str, outcome: &Outcome, sink: &Sink, input: &Value, what: &str) -> bool {
    match outcome {
        Outcome::Report { .. } => false,
        Outcome::Error { stage, message, .. } => {
            sink.fail(format!("{prop}:unexpected-error:{stage}:{what}"), format!("run failed with an error where the rule is well-formed: {message}"), input.clone());
            true
        }
        Outcome::Panic { message } => {
            sink.fail(format!("{prop}:panic:{}", first_line(message)), format!("panic: {message}"), input.clone());
            true
        }
    }
}

pub fn first_line(s: &str) -> String {
    s.lines().next().unwrap_or("").chars().take(100).collect()
}

// ---------------------------------------------------------------------------------------------
// One lonely block that carries all four synchronous rules (C06–C09 each judge their own rule)
// ---------------------------------------------------------------------------------------------

const COMBINED_CODES: [&str; 4] = ["keep-sorted", "keep-unique", "line-pattern", "line-count"];
const COMBINED_ATTRS: &str = "keep-sorted keep-unique line-pattern=\"^[a-z0-9= ]+$\" line-count=\"<=1\"";

/// The file holds a single block with every synchronous rule on it — no other block can make a
/// rule's validator exist — and is run under the flag selections that keep the own rule enabled
/// (none; `-e own -e other` for each other rule; `-d check-ai -d check-lua`) and, for keep-sorted,
/// in diff mode with a violated `affects` on the same block. Judged: the own rule's diagnostic.
fn combined_check(own: usize, prop: &str, lines: &[String], sink: &Sink) {
    if lines.iter().any(|l| l.contains("<block") || l.contains("</block")) {
        return;
    }
    let ks = keys(lines, None);
    let re = cached_regex("^[a-z0-9= ]+$");
    let actual = lines.iter().filter(|l| !is_blank(l)).count();
    // Expected line of the own rule's diagnostic (None: no diagnostic).
    let expected: Option<usize> = match own {
        0 => first_out_of_order(&ks, false, false).map(|i| 2 + ks[i].line_idx),
        1 => first_duplicate(&ks).map(|i| 2 + ks[i].line_idx),
        2 => lines.iter().enumerate().find_map(|(i, l)| trimmed(l).and_then(|(t, ..)| (!re.is_match(&t)).then_some(2 + i))),
        _ => (actual > 1).then_some(1),
    };
    let code = COMBINED_CODES[own];
    let mut selections: Vec<(String, Vec<String>, Vec<String>, bool)> = vec![("no flags".into(), vec![], vec![], false), ("-d check-ai -d check-lua".into(), vec![], vec!["check-ai".into(), "check-lua".into()], false)];
    for (o, other) in COMBINED_CODES.iter().enumerate() {
        if o != own {
            selections.push((format!("-e {code} -e {other}"), vec![code.to_string(), other.to_string()], vec![], false));
            selections.push((format!("-e {other} -e {code}"), vec![other.to_string(), code.to_string()], vec![], false));
        }
    }
    if own == 0 {
        selections.push(("diff mode, violated affects on the same block".into(), vec![], vec![], true));
    }
    for (what, enabled, disabled, with_affects) in selections {
        let attrs = if with_affects { format!("name=\"cb\" affects=\":missing\" {COMBINED_ATTRS}") } else { COMBINED_ATTRS.to_string() };
        let mut text = format!("# <block {attrs}>\n");
        for l in lines {
            text.push_str(l);
            text.push('\n');
        }
        text.push_str("# </block>\n");
        let diff = with_affects.then(|| crate::cli::new_file_diff("x.py", &text));
        let input = json!({"combined": own, "lines": lines, "selection": what});
        sink.exec();
        let outcome = librun::run(&Input { files: vec![("x.py".to_string(), text.clone())], diff, enabled, disabled, ..Default::default() });
        sink.outcome(format!("combined:{}", outcome.class()));
        if common_failure(prop, &outcome, sink, &input, "combined") {
            continue;
        }
        let mine: Vec<&Diag> = outcome.diags().iter().filter(|d| d.code == code).collect();
        let ctx = || format!("a single block `{attrs}` with lines {lines:?}, {what}");
        match (expected, mine.as_slice()) {
            (None, []) => {}
            (None, [d, ..]) => sink.fail(format!("{prop}:combined:spurious-diagnostic"), format!("{}: no {code} violation expected, got {}", ctx(), diag_lines(d)), input.clone()),
            (Some(line), []) => sink.fail(format!("{prop}:combined:missing-diagnostic"), format!("{}: a {code} diagnostic on line {line} is due, none came (all diagnostics: {:?})", ctx(), outcome.diags().iter().map(|d| d.code.as_str()).collect::<Vec<_>>()), input.clone()),
            (Some(line), [d]) => {
                if d.range.0 as usize != line {
                    sink.fail(format!("{prop}:combined:wrong-line"), format!("{}: expected line {line}, got {}", ctx(), diag_lines(d)), input.clone());
                }
            }
            (Some(_), many) => sink.fail(format!("{prop}:combined:more-than-one-diagnostic"), format!("{}: {} {code} diagnostics", ctx(), many.len()), input.clone()),
        }
    }
    sink.nontrivial();
}

fn combined_phase(own: usize, prop: &'static str, alphabet: &'static [&'static str], cfg: &Cfg, sink: &Arc<Sink>) -> Phase {
    seq_phase("one lonely block carrying all four synchronous rules × flag selections", alphabet, cfg.tier.pick(2, 3), cfg, sink, move |lines, sink| combined_check(own, prop, lines, sink))
}

// ---------------------------------------------------------------------------------------------
// C06 keep-sorted
// ---------------------------------------------------------------------------------------------

const C06_BASE: &[&str] = &["b", "a", "b ", "  a", "ab", "", "2", "10", "9.5", "-3", "2.0", "k=2 x", "k=10 y", "zz", "B", "   ", "z=1 q", "k= w"];
const C06_EXT: &[&str] = &[
    "b", "a", "", "é", "z", "Z", "a b", "0", "-0", "1e1", "+2", "k=2", "  k=3 k=1", "k=02 z", "10", "9", "9.5", "\tb", "a\u{a0}", "aa", "k= 5", "\u{3000}", "k=2 #z", "k=10 #z",
];

const C06_LONG: &[&str] = &["2", "10", "", "k=3 z"];
const C07_LONG: &[&str] = &["a", "id=1 x", "", "id=1 y"];
const C08_LONG: &[&str] = &["abc", "x1y", "", "  xy "];

const C06_DIRS: &[(&str, bool)] = &[
    ("keep-sorted", false),
    ("keep-sorted=\"asc\"", false),
    ("keep-sorted=\"desc\"", true),
    ("keep-sorted=\"ASC\"", false),
    ("keep-sorted=\"Desc\"", true),
    ("keep-sorted=\"\"", false),
];
// The group pattern's whole match (`z=1`) orders differently from its `value` group (`1`).
const C06_PATTERNS: &[Option<&str>] = &[
    None,
    Some(r"[a-z]=(?P<value>\d+)"),
    Some(r"[a-z]=\d+"),
    // Ascending spelling only: a group that may be empty, a key anchored at the end of the line,
    // a whole match that runs to the end of the line (trailing blanks belong to the key).
    Some(r"[a-z]=(?P<value>\d*)"),
    Some(r"(?P<value>\S+)$"),
    Some(r"[a-z].*"),
    // The group takes part in one branch only: a line matching through the other branch is keyed
    // by its whole match.
    Some(r"(?:[a-z]=(?P<value>\d+)|zz)"),
    // The pattern itself holds the host's comment marker (`#` in the Python host).
    Some(r"=(?P<value>\d+) #"),
    // An unnamed capturing group comes before the `value` group.
    Some(r"([a-z])=(?P<value>\d+)"),
];

fn numeric_value(s: &str) -> Option<f64> {
    // Plain decimal numbers only; anything else is left to C13 (malformed rule).
    let body = s.strip_prefix('-').unwrap_or(s);
    let (int, frac) = match body.split_once('.') {
        Some((i, f)) => (i, Some(f)),
        None => (body, None),
    };
    let digits = |t: &str| !t.is_empty() && t.bytes().all(|b| b.is_ascii_digit());
    if digits(int) && frac.is_none_or(digits) { s.parse().ok() } else { None }
}

fn first_out_of_order(keys: &[Key], desc: bool, numeric: bool) -> Option<usize> {
    for i in 1..keys.len() {
        let (prev, cur) = (&keys[i - 1].text, &keys[i].text);
        let ord = if numeric {
            let (p, c) = (numeric_value(prev).unwrap(), numeric_value(cur).unwrap());
            p.partial_cmp(&c).unwrap()
        } else {
            // Code-point order.
            prev.chars().cmp(cur.chars())
        };
        let out_of_order = if desc { ord == std::cmp::Ordering::Less } else { ord == std::cmp::Ordering::Greater };
        if out_of_order {
            return Some(i);
        }
    }
    None
}

struct C06Config {
    attrs: String,
    desc: bool,
    pattern: Option<Regex>,
    numeric: bool,
    label: String,
}

fn c06_configs() -> Vec<C06Config> {
    // {bare (ascending), desc} × 3 patterns × 2 formats, plus the remaining direction spellings
    // (empty value, asc, ASC, Desc) with no pattern in both formats.
    let mut v = Vec::new();
    for numeric in [false, true] {
        for (di, (dir, desc)) in C06_DIRS.iter().enumerate() {
            for (pi, pat) in C06_PATTERNS.iter().enumerate() {
                let canonical_spelling = di == 0 || di == 2;
                if !canonical_spelling && pat.is_some() {
                    continue;
                }
                if di != 0 && pi >= 3 {
                    continue;
                }
                let mut attrs = dir.to_string();
                if let Some(p) = pat {
                    attrs.push_str(&format!(" keep-sorted-pattern={}", quote(p)));
                }
                if numeric {
                    attrs.push_str(" keep-sorted-format=\"numeric\"");
                }
                v.push(C06Config {
                    attrs,
                    desc: *desc,
                    pattern: pat.map(|p| Regex::new(p).unwrap()),
                    numeric,
                    label: format!(
                        "dir={}:pat={}:fmt={}",
                        if *desc { "desc" } else { "asc" },
                        match pat { None => "none", Some(p) if p.contains("value") => "group", _ => "plain" },
                        if numeric { "numeric" } else { "lex" }
                    ),
                });
            }
        }
    }
    v
}

fn c06_check(lines: &[String], configs: &[C06Config], sink: &Sink) {
    let Some(in_host) = lines_in_host(lines) else { return };
    let input = json!({"lines": lines, "crlf": crlf(), "md_host": md_host(), "bom": bom(), "end_shared": end_shared()});
    let mut distinct = false;
    for numeric in [false, true] {
        let mut batch = new_batch("keep-sorted");
        let mut expected: Vec<(usize, Option<(usize, usize, usize)>)> = Vec::new(); // (config idx, expected (line, c1, c2))
        for (ci, c) in configs.iter().enumerate().filter(|(_, c)| c.numeric == numeric) {
            let ks = keys(&in_host, c.pattern.as_ref());
            if numeric && ks.iter().any(|k| numeric_value(&k.text).is_none()) {
                continue; // non-numeric keys under numeric sort: C13
            }
            let idx = batch.block(&c.attrs, lines);
            let first = batch.blocks[idx].first_content_line;
            let exp = first_out_of_order(&ks, c.desc, numeric).map(|i| (first + ks[i].line_idx, ks[i].col_start, ks[i].col_end));
            if ks.len() >= 2 {
                distinct = true;
            }
            expected.push((ci, exp));
        }
        if batch.blocks.is_empty() {
            continue;
        }
        close_batch(&mut batch, "keep-sorted");
        sink.exec();
        let outcome = run_file(batch.file_name(), batch.text());
        sink.outcome(format!("{}:{}", if numeric { "numeric" } else { "lex" }, outcome.class()));
        if common_failure("C06", &outcome, sink, &input, if numeric { "numeric" } else { "lex" }) {
            continue;
        }
        if outcome.blocks().len() != batch.blocks.len() + batch.companions.len() {
            // The blocks are there by construction (and are found on the unchanged tree): a block
            // that is not found cannot get the diagnostics the property promises.
            sink.fail("C06:blocks-not-found-as-written", format!("the file holds {} blocks, {} were found; lines {lines:?}\n{}", batch.blocks.len() + batch.companions.len(), outcome.blocks().len(), batch.text()), input.clone());
            continue;
        }
        check_companions("C06", &batch, outcome.diags(), sink, &input);
        let (by_block, stray) = per_block(&batch, outcome.diags(), "keep-sorted", false);
        for d in stray {
            sink.fail("C06:stray-diagnostic", format!("diagnostic not attributable to a keep-sorted block: {}", diag_lines(d)), input.clone());
        }
        for (bi, (ci, exp)) in expected.iter().enumerate() {
            let c = &configs[*ci];
            let got = &by_block[bi];
            let ctx = || format!("block `{}` with lines {:?}", c.attrs, lines);
            match (exp, got.as_slice()) {
                (None, []) => {}
                (None, [d, ..]) => sink.fail(format!("C06:spurious-diagnostic:{}", c.label), format!("{}: keys are in order but got {}", ctx(), diag_lines(d)), input.clone()),
                (Some(e), []) => sink.fail(format!("C06:missing-diagnostic:{}", c.label), format!("{}: first out-of-order key at line {} cols {}-{} but no diagnostic", ctx(), e.0, e.1, e.2), input.clone()),
                (Some(e), [d]) => {
                    let r = d.range;
                    if (r.0 as usize, r.2 as usize) != (e.0, e.0) {
                        sink.fail(format!("C06:wrong-line-designated:{}", c.label), format!("{}: expected the first out-of-order key at line {} but diagnostic is {}", ctx(), e.0, diag_lines(d)), input.clone());
                    } else if e.1 <= e.2 && (r.1 as usize, r.3 as usize) != (e.1, e.2) {
                        sink.fail(format!("C06:wrong-columns:{}", c.label), format!("{}: expected cols {}-{} but diagnostic is {}", ctx(), e.1, e.2, diag_lines(d)), input.clone());
                    } else if d.severity != 1 {
                        sink.fail("C06:wrong-severity", format!("{}: severity {}", ctx(), d.severity), input.clone());
                    }
                }
                (Some(_), many) => sink.fail(format!("C06:more-than-one-diagnostic:{}", c.label), format!("{}: {} diagnostics for one block", ctx(), many.len()), input.clone()),
            }
        }
    }
    if distinct {
        sink.nontrivial();
    }
    sink.sample(|| input);
}

fn seq_lines(alphabet: &[&str], seq: &[u8]) -> Vec<String> {
    seq.iter().map(|&i| alphabet[i as usize].to_string()).collect()
}

/// CLI conformance slice: for every sequence of ≤2 lines the batched file is also run through the
/// real binary and must give the same diagnostics, status and `list` output as the library.
fn conformance_phase(prop: &'static str, alphabet: &'static [&'static str], cfg: &Cfg, sink: &Arc<Sink>, render: fn(&[String]) -> Vec<(String, String)>) -> Phase {
    let cfg2 = cfg.clone();
    engine::explore(
        "CLI conformance slice",
        &format!("all sequences of ≤2 lines over the {}-line alphabet, library vs real CLI (scan + list)", alphabet.len()),
        Sequences {
            alphabet: alphabet.len() as u8,
            max_len: 2,
            check: move |seq: &[u8], sink: &Sink| {
                let lines = seq_lines(alphabet, seq);
                for (name, text) in render(&lines) {
                    let files = vec![(name, text)];
                    sink.exec();
                    let lib = librun::run(&Input { files: files.clone(), ..Default::default() });
                    crate::props::conform::cli_agrees(&cfg2, &files, &lib, &[], prop, &json!({"lines": lines, "conformance": true}), sink);
                }
            },
        },
        sink,
        cfg.threads,
        false,
    )
}

fn render_c06(lines: &[String]) -> Vec<(String, String)> {
    let configs = c06_configs();
    let mut out = Vec::new();
    for numeric in [false, true] {
        let mut batch = Batch::new();
        for c in configs.iter().filter(|c| c.numeric == numeric) {
            let ks = keys(lines, c.pattern.as_ref());
            if numeric && ks.iter().any(|k| numeric_value(&k.text).is_none()) {
                continue;
            }
            batch.block(&c.attrs, lines);
        }
        if !batch.blocks.is_empty() {
            out.push(("x.py".to_string(), batch.text().to_string()));
        }
    }
    out
}

fn render_c07(lines: &[String]) -> Vec<(String, String)> {
    let mut batch = Batch::new();
    for pat in C07_PATTERNS {
        let attrs = match pat {
            None => "keep-unique".to_string(),
            Some(p) => format!("keep-unique={}", quote(p)),
        };
        batch.block(&attrs, lines);
    }
    vec![("x.py".to_string(), batch.text().to_string())]
}

fn render_c08(lines: &[String]) -> Vec<(String, String)> {
    let mut batch = Batch::new();
    for p in C08_PATTERNS {
        batch.block(&format!("line-pattern={}", quote(p)), lines);
    }
    vec![("x.py".to_string(), batch.text().to_string())]
}

fn seq_phase<F>(name: &str, alphabet: &'static [&'static str], max_len: usize, cfg: &Cfg, sink: &Arc<Sink>, check: F) -> Phase
where
    F: Fn(&[String], &Sink) + Send + Sync + 'static,
{
    let bound = format!("all sequences of ≤{} lines over a {}-line alphabet", max_len, alphabet.len());
    let total: u64 = (0..=max_len as u32).map(|d| (alphabet.len() as u64).pow(d)).sum();
    engine::explore(
        name,
        &bound,
        Sequences { alphabet: alphabet.len() as u8, max_len, check: move |seq: &[u8], sink: &Sink| check(&seq_lines(alphabet, seq), sink) },
        sink,
        cfg.threads,
        total > 400_000,
    )
}

pub fn run_c06(cfg: &Cfg, sink: &Arc<Sink>) -> Report {
    let mut report = Report::new("states = sequences of content lines; each state is rendered into Python-hosted blocks, one per rule configuration ({bare, desc}×{no pattern, value-group pattern, plain pattern} + {empty value, asc, ASC, Desc}×{no pattern})×{lexicographic, numeric (only when every key is a plain decimal)}, parsed and validated by the real code; non-trivial = at least one configuration has ≥2 keys");
    report.assume("regex crate semantics are trusted for *which* substring a pattern matches; code-point order and decimal comparison are re-implemented in the reference");
    // Oracle self-test on the README examples.
    let ex = |lines: &[&str], desc, numeric, pat: Option<&str>| {
        let l: Vec<String> = lines.iter().map(|s| s.to_string()).collect();
        let re = pat.map(|p| cached_regex(p));
        first_out_of_order(&keys(&l, re.as_ref()), desc, numeric)
    };
    if ex(&["\"apple\",", "\"banana\",", "\"cherry\","], false, false, None).is_some()
        || ex(&["\"cherry\",", "\"apple\","], false, false, None) != Some(1)
        || ex(&["2", "10", "20"], false, true, None).is_some()
        || ex(&["2", "10", "20"], false, false, None) != Some(1)
        || ex(&["\"id: 2  banana\",", "\"id: 10 orange\",", "\"id: 20 apple\","], false, true, Some(r"id: (?P<value>\d+)")).is_some()
    {
        sink.machinery("C06 reference disagrees with a README example");
        return report;
    }
    let configs = Arc::new(c06_configs());
    let depth = cfg.tier.pick(4, 5);
    let c = Arc::clone(&configs);
    report.phase(seq_phase("base-alphabet", C06_BASE, depth, cfg, sink, move |lines, sink| c06_check(lines, &c, sink)));
    let c = Arc::clone(&configs);
    report.phase(seq_phase("extended-alphabet (unicode, signed zero, exponent, several matches per line)", C06_EXT, cfg.tier.pick(3, 4), cfg, sink, move |lines, sink| c06_check(lines, &c, sink)));
    let c = Arc::clone(&configs);
    report.phase(seq_phase("long blocks over a 4-line alphabet", C06_LONG, cfg.tier.pick(7, 9), cfg, sink, move |lines, sink| c06_check(lines, &c, sink)));
    let c = configs.clone();
    report.phase(with_crlf(|| seq_phase("base-alphabet, CRLF line ends", C06_BASE, cfg.tier.pick(3, 4), cfg, sink, move |lines, sink| c06_check(lines, &c, sink))));
    let c = configs.clone();
    report.phase(with_md_host(|| seq_phase("base-alphabet, Markdown host whose start comment goes on after the tag", C06_BASE, cfg.tier.pick(3, 4), cfg, sink, move |lines, sink| c06_check(lines, &c, sink))));
    let c = configs.clone();
    report.phase(with_bom(|| seq_phase("base-alphabet, file starts with a byte order mark", C06_BASE, cfg.tier.pick(2, 3), cfg, sink, move |lines, sink| c06_check(lines, &c, sink))));
    let c = configs.clone();
    report.phase(with_end_shared(|| seq_phase("base-alphabet, end tag sharing the last content line", C06_BASE, cfg.tier.pick(3, 4), cfg, sink, move |lines, sink| c06_check(lines, &c, sink))));
    report.phase(combined_phase(0, "C06", C06_BASE, cfg, sink));
    report.phase(conformance_phase("C06", C06_BASE, cfg, sink, render_c06));
    report
}

pub fn replay_c06(cfg: &Cfg, input: &Value, sink: &Arc<Sink>) {
    if input.get("combined").is_some() {
        let lines: Vec<String> = serde_json::from_value(input["lines"].clone()).unwrap_or_default();
        combined_check(0, "C06", &lines, sink);
        return;
    }
    let lines: Vec<String> = serde_json::from_value(input["lines"].clone()).unwrap_or_default();
    if input.get("conformance").is_some() {
        for (name, text) in render_c06(&lines) {
            let files = vec![(name, text)];
            let lib = librun::run(&Input { files: files.clone(), ..Default::default() });
            crate::props::conform::cli_agrees(cfg, &files, &lib, &[], "C06", input, sink);
        }
        return;
    }
    with_flags(input, || c06_check(&lines, &c06_configs(), sink));
}

// ---------------------------------------------------------------------------------------------
// C07 keep-unique
// ---------------------------------------------------------------------------------------------

const C07_BASE: &[&str] = &["a", "b", "  a", "a ", "", "id=1 x", "id=1 y", "id=2 x", "zz", "y id=2", "   ", "A", "\u{2003}a\u{a0}", "\u{3000}", "id= q", "id=1 #z"];
const C07_PATTERNS: &[Option<&str>] = &[
    None,
    Some(r"id=(?P<value>\d+)"),
    Some(r"id=\d+"),
    Some(r"^id=\d+"),
    Some(r"id=(?P<value>\d+) \w"),
    // A group that may be empty (the empty string is a key like any other) and a key anchored
    // at the end of the line.
    Some(r"id=(?P<value>\d*)"),
    Some(r"(?P<value>\S+)$"),
    // The group takes part in one branch only: `zz` is keyed by its whole match.
    Some(r"(?:id=(?P<value>\d+)|zz)"),
    // The pattern holds the host's comment marker; an unnamed group precedes the `value` group.
    Some(r"id=(?P<value>\d+) #"),
    Some(r"(i)d=(?P<value>\d+)"),
];

fn first_duplicate(keys: &[Key]) -> Option<usize> {
    for i in 0..keys.len() {
        if keys[..i].iter().any(|k| k.text == keys[i].text) {
            return Some(i);
        }
    }
    None
}

fn c07_check(lines: &[String], sink: &Sink) {
    let Some(in_host) = lines_in_host(lines) else { return };
    let input = json!({"lines": lines, "crlf": crlf(), "md_host": md_host(), "bom": bom(), "end_shared": end_shared()});
    let mut batch = new_batch("keep-unique");
    let mut expected = Vec::new();
    let mut labels = Vec::new();
    let mut nontrivial = false;
    for pat in C07_PATTERNS {
        let attrs = match pat {
            None => "keep-unique".to_string(),
            Some(p) => format!("keep-unique={}", quote(p)),
        };
        let re = pat.map(|p| cached_regex(p));
        let ks = keys(&in_host, re.as_ref());
        let idx = batch.block(&attrs, lines);
        let first = batch.blocks[idx].first_content_line;
        nontrivial |= ks.len() >= 2;
        expected.push(first_duplicate(&ks).map(|i| (first + ks[i].line_idx, ks[i].col_start, ks[i].col_end)));
        labels.push(match pat { None => "none", Some(p) if p.ends_with("\\w") => "group-inside-longer-match", Some(p) if p.ends_with("\\d*)") => "group-may-be-empty", Some(p) if p.ends_with('$') => "end-anchored", Some(p) if p.ends_with("|zz)") => "group-in-one-branch", Some(p) if p.ends_with(" #") => "comment-marker-in-pattern", Some(p) if p.starts_with("(i)") => "unnamed-group-first", Some(p) if p.contains("value") => "group", Some(p) if p.starts_with('^') => "anchored", _ => "plain" });
    }
    // A repeated, bare `keep-unique` after one with a regex: the last one wins, no regex.
    let idx = batch.block("keep-unique=\"id=(?P<value>\\d+)\" keep-unique", lines);
    let ks = keys(&in_host, None);
    expected.push(first_duplicate(&ks).map(|i| (batch.blocks[idx].first_content_line + ks[i].line_idx, ks[i].col_start, ks[i].col_end)));
    labels.push("bare-duplicate-attribute");
    // Also the empty-attribute spelling.
    let idx = batch.block("keep-unique=\"\"", lines);
    let ks = keys(&in_host, None);
    expected.push(first_duplicate(&ks).map(|i| (batch.blocks[idx].first_content_line + ks[i].line_idx, ks[i].col_start, ks[i].col_end)));
    labels.push("empty");

    close_batch(&mut batch, "keep-unique");
    sink.exec();
    let outcome = run_file(batch.file_name(), batch.text());
    sink.outcome(outcome.class());
    if common_failure("C07", &outcome, sink, &input, "") {
        return;
    }
    if outcome.blocks().len() != batch.blocks.len() + batch.companions.len() {
        sink.fail("C07:blocks-not-found-as-written", format!("the file holds {} blocks, {} were found; lines {lines:?}\n{}", batch.blocks.len() + batch.companions.len(), outcome.blocks().len(), batch.text()), input.clone());
        return;
    }
    check_companions("C07", &batch, outcome.diags(), sink, &input);
    let (by_block, stray) = per_block(&batch, outcome.diags(), "keep-unique", false);
    for d in stray {
        sink.fail("C07:stray-diagnostic", format!("diagnostic not attributable: {}", diag_lines(d)), input.clone());
    }
    for (bi, exp) in expected.iter().enumerate() {
        let got = &by_block[bi];
        let label = labels[bi];
        let ctx = || format!("block `{}` with lines {:?}", batch.blocks[bi].attrs, lines);
        match (exp, got.as_slice()) {
            (None, []) => {}
            (None, [d, ..]) => sink.fail(format!("C07:spurious-diagnostic:pat={label}"), format!("{}: keys are unique but got {}", ctx(), diag_lines(d)), input.clone()),
            (Some(e), []) => sink.fail(format!("C07:missing-diagnostic:pat={label}"), format!("{}: key at line {} repeats an earlier key but no diagnostic", ctx(), e.0), input.clone()),
            (Some(e), [d]) => {
                let r = d.range;
                if (r.0 as usize, r.2 as usize) != (e.0, e.0) {
                    sink.fail(format!("C07:wrong-line-designated:pat={label}"), format!("{}: first repeated key is at line {} but diagnostic is {}", ctx(), e.0, diag_lines(d)), input.clone());
                } else if e.1 <= e.2 && (r.1 as usize, r.3 as usize) != (e.1, e.2) {
                    sink.fail(format!("C07:wrong-columns:pat={label}"), format!("{}: expected cols {}-{} but diagnostic is {}", ctx(), e.1, e.2, diag_lines(d)), input.clone());
                } else if d.severity != 1 {
                    sink.fail("C07:wrong-severity", format!("{}: severity {}", ctx(), d.severity), input.clone());
                }
            }
            (Some(_), many) => sink.fail(format!("C07:more-than-one-diagnostic:pat={label}"), format!("{}: {} diagnostics for one block", ctx(), many.len()), input.clone()),
        }
    }
    if nontrivial {
        sink.nontrivial();
    }
    sink.sample(|| input);
}

pub fn run_c07(cfg: &Cfg, sink: &Arc<Sink>) -> Report {
    let mut report = Report::new("states = sequences of content lines; each state is rendered into Python-hosted blocks, one per configuration {bare, empty value, value-group regex, plain regex, anchored regex}; non-trivial = some configuration has ≥2 keys");
    report.assume("regex crate semantics are trusted for which substring a pattern matches");
    let l = |v: &[&str]| v.iter().map(|s| s.to_string()).collect::<Vec<_>>();
    let re = Regex::new(r"^ID:(?P<value>\d+)").unwrap();
    if first_duplicate(&keys(&l(&["ID:1 Alice", "ID:2 Bob", "ID:1 Carol"]), Some(&re))) != Some(2)
        || first_duplicate(&keys(&l(&["\"user_1\",", "\"user_2\","]), None)).is_some()
    {
        sink.machinery("C07 reference disagrees with a README example");
        return report;
    }
    report.phase(seq_phase("base-alphabet", C07_BASE, cfg.tier.pick(4, 5), cfg, sink, c07_check));
    report.phase(seq_phase("long blocks over a 4-line alphabet", C07_LONG, cfg.tier.pick(7, 9), cfg, sink, c07_check));
    report.phase(with_crlf(|| seq_phase("base-alphabet, CRLF line ends", C07_BASE, cfg.tier.pick(3, 4), cfg, sink, c07_check)));
    report.phase(with_md_host(|| seq_phase("base-alphabet, Markdown host whose start comment goes on after the tag", C07_BASE, cfg.tier.pick(3, 4), cfg, sink, c07_check)));
    report.phase(with_bom(|| seq_phase("base-alphabet, file starts with a byte order mark", C07_BASE, cfg.tier.pick(2, 3), cfg, sink, c07_check)));
    report.phase(with_end_shared(|| seq_phase("base-alphabet, end tag sharing the last content line", C07_BASE, cfg.tier.pick(3, 4), cfg, sink, c07_check)));
    report.phase(combined_phase(1, "C07", C07_BASE, cfg, sink));
    report.phase(conformance_phase("C07", C07_BASE, cfg, sink, render_c07));
    report
}

pub fn replay_c07(cfg: &Cfg, input: &Value, sink: &Arc<Sink>) {
    if input.get("combined").is_some() {
        let lines: Vec<String> = serde_json::from_value(input["lines"].clone()).unwrap_or_default();
        combined_check(1, "C07", &lines, sink);
        return;
    }
    let lines: Vec<String> = serde_json::from_value(input["lines"].clone()).unwrap_or_default();
    if input.get("conformance").is_some() {
        for (name, text) in render_c07(&lines) {
            let files = vec![(name, text)];
            let lib = librun::run(&Input { files: files.clone(), ..Default::default() });
            crate::props::conform::cli_agrees(cfg, &files, &lib, &[], "C07", input, sink);
        }
        return;
    }
    with_flags(input, || c07_check(&lines, sink));
}

// ---------------------------------------------------------------------------------------------
// C08 line-pattern
// ---------------------------------------------------------------------------------------------

// The last line holds a lone carriage return in its middle (not a line end; `.` matches it).
const C08_BASE: &[&str] = &["abc", "ab1", "  abc", "abc  ", "", "   ", "x1y", "1", "xy", "yx", "  x  ", "é", "\u{3000}", "\u{2003}abc\u{a0}", "x\ry", "x#y"];
// The last pattern is the host's comment marker itself.
const C08_PATTERNS: &[&str] = &["^[a-z]+$", "[0-9]", "^x", "y$", r"^\S+$", "x.y", "#"];

fn c08_check(lines: &[String], sink: &Sink) {
    let Some(in_host) = lines_in_host(lines) else { return };
    let input = json!({"lines": lines, "crlf": crlf(), "md_host": md_host(), "bom": bom(), "end_shared": end_shared()});
    let mut batch = new_batch("line-pattern");
    let mut expected = Vec::new();
    for p in C08_PATTERNS {
        let re = cached_regex(p);
        let idx = batch.block(&format!("line-pattern={}", quote(p)), lines);
        let first = batch.blocks[idx].first_content_line;
        let exp = in_host.iter().enumerate().find_map(|(i, l)| {
            let (t, c1, c2) = trimmed(l)?;
            if re.is_match(&t) { None } else { Some((first + i, c1, c2)) }
        });
        expected.push(exp);
    }
    close_batch(&mut batch, "line-pattern");
    sink.exec();
    let outcome = run_file(batch.file_name(), batch.text());
    sink.outcome(outcome.class());
    if common_failure("C08", &outcome, sink, &input, "") {
        return;
    }
    if outcome.blocks().len() != batch.blocks.len() + batch.companions.len() {
        sink.fail("C08:blocks-not-found-as-written", format!("the file holds {} blocks, {} were found; lines {lines:?}\n{}", batch.blocks.len() + batch.companions.len(), outcome.blocks().len(), batch.text()), input.clone());
        return;
    }
    check_companions("C08", &batch, outcome.diags(), sink, &input);
    let (by_block, stray) = per_block(&batch, outcome.diags(), "line-pattern", false);
    for d in stray {
        sink.fail("C08:stray-diagnostic", format!("diagnostic not attributable: {}", diag_lines(d)), input.clone());
    }
    for (bi, exp) in expected.iter().enumerate() {
        let got = &by_block[bi];
        let label = C08_PATTERNS[bi];
        let ctx = || format!("block `{}` with lines {:?}", batch.blocks[bi].attrs, lines);
        match (exp, got.as_slice()) {
            (None, []) => {}
            (None, [d, ..]) => sink.fail(format!("C08:spurious-diagnostic:{label}"), format!("{}: every non-blank trimmed line matches but got {}", ctx(), diag_lines(d)), input.clone()),
            (Some(e), []) => sink.fail(format!("C08:missing-diagnostic:{label}"), format!("{}: line {} does not match but no diagnostic", ctx(), e.0), input.clone()),
            (Some(e), [d]) => {
                let r = d.range;
                if (r.0 as usize, r.2 as usize) != (e.0, e.0) {
                    sink.fail(format!("C08:wrong-line-designated:{label}"), format!("{}: first failing line is {} but diagnostic is {}", ctx(), e.0, diag_lines(d)), input.clone());
                } else if (r.1 as usize, r.3 as usize) != (e.1, e.2) {
                    sink.fail(format!("C08:wrong-columns:{label}"), format!("{}: expected cols {}-{} but diagnostic is {}", ctx(), e.1, e.2, diag_lines(d)), input.clone());
                } else if d.severity != 1 {
                    sink.fail("C08:wrong-severity", format!("{}: severity {}", ctx(), d.severity), input.clone());
                }
            }
            (Some(_), many) => sink.fail(format!("C08:more-than-one-diagnostic:{label}"), format!("{}: {} diagnostics for one block", ctx(), many.len()), input.clone()),
        }
    }
    if lines.iter().any(|l| !is_blank(l)) {
        sink.nontrivial();
    }
    sink.sample(|| input);
}

pub fn run_c08(cfg: &Cfg, sink: &Arc<Sink>) -> Report {
    let mut report = Report::new("states = sequences of content lines; each state is rendered into Python-hosted blocks, one per pattern of {^[a-z]+$, [0-9], ^x, y$, ^\\S+$}; non-trivial = some line is non-blank");
    report.assume("regex crate semantics are trusted for whether a pattern matches a given string");
    report.phase(seq_phase("base-alphabet", C08_BASE, cfg.tier.pick(4, 5), cfg, sink, c08_check));
    report.phase(seq_phase("long blocks over a 4-line alphabet", C08_LONG, cfg.tier.pick(7, 9), cfg, sink, c08_check));
    report.phase(with_crlf(|| seq_phase("base-alphabet, CRLF line ends", C08_BASE, cfg.tier.pick(3, 4), cfg, sink, c08_check)));
    report.phase(with_md_host(|| seq_phase("base-alphabet, Markdown host whose start comment goes on after the tag", C08_BASE, cfg.tier.pick(3, 4), cfg, sink, c08_check)));
    report.phase(with_bom(|| seq_phase("base-alphabet, file starts with a byte order mark", C08_BASE, cfg.tier.pick(2, 3), cfg, sink, c08_check)));
    report.phase(with_end_shared(|| seq_phase("base-alphabet, end tag sharing the last content line", C08_BASE, cfg.tier.pick(3, 4), cfg, sink, c08_check)));
    report.phase(combined_phase(2, "C08", C08_BASE, cfg, sink));
    report.phase(conformance_phase("C08", C08_BASE, cfg, sink, render_c08));
    report
}

pub fn replay_c08(cfg: &Cfg, input: &Value, sink: &Arc<Sink>) {
    if input.get("combined").is_some() {
        let lines: Vec<String> = serde_json::from_value(input["lines"].clone()).unwrap_or_default();
        combined_check(2, "C08", &lines, sink);
        return;
    }
    let lines: Vec<String> = serde_json::from_value(input["lines"].clone()).unwrap_or_default();
    if input.get("conformance").is_some() {
        for (name, text) in render_c08(&lines) {
            let files = vec![(name, text)];
            let lib = librun::run(&Input { files: files.clone(), ..Default::default() });
            crate::props::conform::cli_agrees(cfg, &files, &lib, &[], "C08", input, sink);
        }
        return;
    }
    with_flags(input, || c08_check(&lines, sink));
}

// ---------------------------------------------------------------------------------------------
// C09 line-count
// ---------------------------------------------------------------------------------------------

/// Content alphabet (JavaScript host): a statement, a blank line, a whitespace-only line, an
/// indented statement, a plain comment line, a nested block's start and end tag lines.
const C09_LINES: &[&str] = &["x;", "", "   ", "  y;", "// note", "// <block name=\"n\">", "// </block>", "\u{3000}\u{a0}"];
const C09_OPS: &[(&str, fn(usize, usize) -> bool)] = &[
    ("<", |a, n| a < n),
    ("<=", |a, n| a <= n),
    ("==", |a, n| a == n),
    (">=", |a, n| a >= n),
    (">", |a, n| a > n),
];
/// How the expression is spelled: (prefix, between op and number, suffix).
const C09_SPACING: &[(&str, &str, &str)] = &[("", "", ""), ("", " ", ""), (" ", "  ", " ")];
const C09_MAX_N: usize = 7;

/// Layouts: how the block's tags are hosted. Returns (text before content, text after content,
/// the part of the content that sits on the tag's line before the first newline is *not* added —
/// the caller supplies the whole content).
#[derive(Clone, Copy, Debug, PartialEq, Eq, Hash)]
enum C09Layout {
    /// `// <block …>` NL lines… `// </block>`: content starts with the rest of the tag line (empty).
    OwnLine,
    /// `/* <block …> */ first-line NL …`: content begins on the tag's own line.
    SameLine,
    /// Both tags in one comment: no content at all.
    SameComment,
    /// `/* <block …> *//* </block> */`: adjacent comments, empty content.
    Adjacent,
    /// Start tag on its own line; the end tag's comment shares the line of the last content line
    /// (`last; // </block>`): the content does not end with a newline.
    EndShared,
    /// As `OwnLine`, but a tab follows `<block` and the file holds no other kind of start tag.
    TabTag,
    /// The start tag is split after `<block` over two lines of a block comment; no other kind of
    /// start tag in the file.
    SplitTag,
    /// Everything on one line: `/* <block …> */ x; /* </block> */`.
    OneLine,
}

fn c09_valid(seq: &[u8]) -> bool {
    // Nested tags must balance: index 5 opens, 6 closes.
    let mut depth = 0i32;
    for &s in seq {
        if s == 5 {
            depth += 1;
        }
        if s == 6 {
            depth -= 1;
            if depth < 0 {
                return false;
            }
        }
    }
    depth == 0
}

fn c09_check(seq: &[u8], sink: &Sink) {
    if !c09_valid(seq) {
        return;
    }
    let lines = seq_lines(C09_LINES, seq);
    // A `//` comment or a nested `//` tag line cannot be followed by another comment on its line.
    let last_is_code = seq.last().is_some_and(|&s| s == 0 || s == 3);
    let layouts: &[C09Layout] = if seq.is_empty() {
        &[C09Layout::OwnLine, C09Layout::SameLine, C09Layout::SameComment, C09Layout::Adjacent, C09Layout::TabTag, C09Layout::SplitTag]
    } else if seq.len() == 1 && last_is_code {
        &[C09Layout::OwnLine, C09Layout::SameLine, C09Layout::EndShared, C09Layout::OneLine, C09Layout::TabTag, C09Layout::SplitTag]
    } else if last_is_code {
        &[C09Layout::OwnLine, C09Layout::SameLine, C09Layout::EndShared, C09Layout::TabTag, C09Layout::SplitTag]
    } else {
        &[C09Layout::OwnLine, C09Layout::SameLine, C09Layout::TabTag, C09Layout::SplitTag]
    };
    for &layout in layouts {
        // SameLine puts the first content line on the tag's line; a comment or nested tag there
        // would merge with nothing (it is a separate `//` comment), so every line kind is fine.
        let input = json!({"seq": seq, "layout": format!("{layout:?}"), "crlf": crlf(), "bom": bom()});
        // The text between the end of the start comment and the start of the end comment.
        let content: String = match layout {
            C09Layout::OwnLine | C09Layout::TabTag | C09Layout::SplitTag => format!("\n{}", lines.iter().map(|l| format!("{l}\n")).collect::<String>()),
            C09Layout::SameLine => format!(" {}", lines.iter().map(|l| format!("{l}\n")).collect::<String>()),
            C09Layout::SameComment | C09Layout::Adjacent => String::new(),
            C09Layout::EndShared => format!("\n{} ", lines.join("\n")),
            C09Layout::OneLine => format!(" {} ", lines[0]),
        };
        let actual = content.split('\n').filter(|l| !is_blank(l)).count();
        let mut text = String::new();
        let mut tag_lines: Vec<(usize, &str, usize)> = Vec::new(); // (line, op, n)
        let mut line_no = 1usize;
        let mut expected: Vec<(usize, String, usize, bool)> = Vec::new(); // tag line, op, n, violation
        // Companions: violating blocks of the other synchronous validators in the same file, one
        // before and two after the grid; (code, first line, last line).
        let mut companions: Vec<(&str, usize, usize)> = Vec::new();
        let mut companion = |text: &mut String, line_no: &mut usize, code: &'static str, attrs: &str, body: &str| {
            let rendered = format!("// <block {attrs}>\n{body}// </block>\n");
            let n = rendered.matches('\n').count();
            companions.push((code, *line_no, *line_no + n - 1));
            *line_no += n;
            text.push_str(&rendered);
        };
        // The two layouts without an ordinary `<block ` tag carry no companions (their tags are ordinary).
        let with_companions = !matches!(layout, C09Layout::TabTag | C09Layout::SplitTag);
        if with_companions {
            companion(&mut text, &mut line_no, "keep-sorted", "keep-sorted", "q2;\nq1;\n");
        }
        for (op, f) in C09_OPS {
            for (pre, mid, post) in C09_SPACING {
                for n in 0..=C09_MAX_N {
                    let expr = format!("{pre}{op}{mid}{n}{post}");
                    let tag = format!("<block line-count=\"{expr}\">");
                    let rendered = match layout {
                        C09Layout::OwnLine => format!("// {tag}{content}// </block>\n"),
                        C09Layout::TabTag => format!("// <block\tline-count=\"{expr}\">{content}// </block>\n"),
                        C09Layout::SplitTag => format!("/* <block\n   line-count=\"{expr}\"> */{content}// </block>\n"),
                        C09Layout::SameLine => format!("/* {tag} */{content}/* </block> */\n"),
                        C09Layout::SameComment => format!("/* {tag} </block> */\n"),
                        C09Layout::Adjacent => format!("/* {tag} *//* </block> */\n"),
                        C09Layout::EndShared => format!("// {tag}{content}// </block>\n"),
                        C09Layout::OneLine => format!("/* {tag} */{content}/* </block> */\n"),
                    };
                    tag_lines.push((line_no, op, n));
                    expected.push((line_no, op.to_string(), n, !f(actual, n)));
                    line_no += rendered.matches('\n').count();
                    text.push_str(&rendered);
                }
            }
        }
        if with_companions {
            companion(&mut text, &mut line_no, "keep-unique", "keep-unique", "q1;\nq1;\n");
            companion(&mut text, &mut line_no, "line-pattern", "line-pattern=\"^z\"", "q1;\n");
        }
        sink.exec();
        let outcome = run_file("x.js", &text);
        sink.outcome(format!("{layout:?}:actual={actual}:{}", outcome.class()));
        if common_failure("C09", &outcome, sink, &input, "") {
            continue;
        }
        let nested = seq.iter().filter(|&&s| s == 5).count();
        if outcome.blocks().len() != expected.len() * (1 + nested) + companions.len() {
            sink.fail(format!("C09:blocks-not-found-as-written:{layout:?}"), format!("layout {layout:?}, content {content:?}: the file holds {} blocks, {} were found", expected.len() * (1 + nested) + companions.len(), outcome.blocks().len()), input.clone());
            continue;
        }
        let in_companion = |d: &Diag| companions.iter().position(|c| c.0 == d.code && c.1 <= d.range.0 as usize && d.range.0 as usize <= c.2);
        for (i, (code, from, to)) in companions.iter().enumerate() {
            let n = outcome.diags().iter().filter(|d| in_companion(d) == Some(i)).count();
            if n != 1 {
                sink.fail(format!("C09:companion-diagnostics:{code}:{n}"), format!("the violating {code} block at lines {from}-{to} of the same file has {n} diagnostics instead of 1"), input.clone());
            }
        }
        for (tag_line, op, n, violation) in &expected {
            let got: Vec<&Diag> = outcome.diags().iter().filter(|d| d.range.0 as usize == *tag_line).collect();
            let ctx = || format!("layout {layout:?}, content {content:?} ({actual} non-blank lines), line-count {op}{n}");
            match (violation, got.as_slice()) {
                (false, []) => {}
                (false, [d, ..]) => sink.fail(format!("C09:spurious-diagnostic:op{op}"), format!("{}: comparison holds but got {}", ctx(), diag_lines(d)), input.clone()),
                (true, []) => sink.fail(format!("C09:missing-diagnostic:op{op}"), format!("{}: comparison fails but no diagnostic", ctx()), input.clone()),
                (true, [d]) => {
                    let want = json!({"actual": actual, "op": op, "expected": n});
                    if d.code != "line-count" {
                        sink.fail("C09:wrong-code", format!("{}: {}", ctx(), diag_lines(d)), input.clone());
                    } else if d.data != want {
                        sink.fail(format!("C09:wrong-data:op{op}"), format!("{}: data {} instead of {}", ctx(), d.data, want), input.clone());
                    } else if d.severity != 1 {
                        sink.fail("C09:wrong-severity", format!("{}: severity {}", ctx(), d.severity), input.clone());
                    }
                }
                (true, many) => sink.fail(format!("C09:more-than-one-diagnostic:op{op}"), format!("{}: {} diagnostics on one tag", ctx(), many.len()), input.clone()),
            }
        }
        let attributed: usize = expected.iter().map(|(l, ..)| outcome.diags().iter().filter(|d| d.range.0 as usize == *l).count()).sum::<usize>()
            + outcome.diags().iter().filter(|d| in_companion(d).is_some()).count();
        if attributed != outcome.diags().len() {
            sink.fail("C09:stray-diagnostic", format!("{} diagnostics do not sit on a line-count tag", outcome.diags().len() - attributed), input.clone());
        }
        sink.nontrivial();
        sink.sample(|| json!({"layout": format!("{layout:?}"), "content": content, "actual": actual, "grid": "5 ops × 3 spacings × N 0..7"}));
    }
}

pub fn run_c09(cfg: &Cfg, sink: &Arc<Sink>) -> Report {
    let mut report = Report::new("states = sequences of content lines over {statement, blank, whitespace-only, indented statement, comment, nested start tag, nested end tag} (unbalanced nestings are not inputs of this property and are skipped); each state is rendered in every applicable layout {tag on its own line, content starting on the tag's line, end tag sharing the last content line, everything on one line, both tags in one comment, adjacent comments} into a JavaScript file holding the full grid 5 operators × 3 spacings × N 0..7 (120 blocks), validated by the real code; non-trivial = every rendered state");
    report.assume("the count of non-blank lines is taken over the text between the two tag comments, which the construction knows");
    let depth = cfg.tier.pick(5, 7);
    let bound = format!("all sequences of ≤{depth} content lines over a 7-line alphabet × ≤4 layouts × full (op, spacing, N) grid");
    report.phase(engine::explore(
        "content-sequences × layouts × (op,spacing,N) grid",
        &bound,
        Sequences { alphabet: C09_LINES.len() as u8, max_len: depth, check: |seq: &[u8], sink: &Sink| c09_check(seq, sink) },
        sink,
        cfg.threads,
        cfg.tier == Tier::Thorough,
    ));
    let depth = cfg.tier.pick(4, 5);
    report.phase(with_crlf(|| {
        engine::explore(
            "content-sequences × layouts × grid, CRLF line ends",
            &format!("all sequences of ≤{depth} content lines, files rendered with CRLF line ends"),
            Sequences { alphabet: C09_LINES.len() as u8, max_len: depth, check: |seq: &[u8], sink: &Sink| c09_check(seq, sink) },
            sink,
            cfg.threads,
            false,
        )
    }));
    let depth = cfg.tier.pick(3, 4);
    report.phase(with_bom(|| {
        engine::explore(
            "content-sequences × layouts × grid, file starts with a byte order mark",
            &format!("all sequences of ≤{depth} content lines, files starting with U+FEFF"),
            Sequences { alphabet: C09_LINES.len() as u8, max_len: depth, check: |seq: &[u8], sink: &Sink| c09_check(seq, sink) },
            sink,
            cfg.threads,
            false,
        )
    }));
    report.phase(combined_phase(3, "C09", C08_BASE, cfg, sink));
    report
}

pub fn replay_c09(_cfg: &Cfg, input: &Value, sink: &Arc<Sink>) {
    if input.get("combined").is_some() {
        let lines: Vec<String> = serde_json::from_value(input["lines"].clone()).unwrap_or_default();
        combined_check(3, "C09", &lines, sink);
        return;
    }
    let seq: Vec<u8> = serde_json::from_value(input["seq"].clone()).unwrap_or_default();
    with_flags(input, || c09_check(&seq, sink));
}

pub fn bench_git(threads: usize) {
    let start = std::time::Instant::now();
    let handles: Vec<_> = (0..threads)
        .map(|i| {
            std::thread::spawn(move || {
                let pair = crate::cli::TreePair::new("bench");
                for k in 0..200 {
                    pair.set_old("x.py", &format!("a\nb{i}\n"));
                    pair.set_new("x.py", &format!("a\nc{k}\n"));
                    let _ = pair.diff(3, &[]);
                }
            })
        })
        .collect();
    for h in handles {
        h.join().unwrap();
    }
    let dt = start.elapsed().as_secs_f64();
    eprintln!("git: {threads} threads × 200 diffs: {:.2}s = {:.0} diffs/s", dt, (threads * 200) as f64 / dt);
}

/// Throughput probe (not a check): `bwmc BENCH`.
pub fn bench(threads: usize) {
    let start = std::time::Instant::now();
    let handles: Vec<_> = (0..threads)
        .map(|_| {
            std::thread::spawn(|| {
                let sink = Sink::new();
                let lines: Vec<String> = vec!["abc".into(), "ab1".into(), "x1y".into()];
                for _ in 0..2000 {
                    c08_check(&lines, &sink);
                }
            })
        })
        .collect();
    for h in handles {
        h.join().unwrap();
    }
    let dt = start.elapsed().as_secs_f64();
    eprintln!("{threads} threads × 2000 runs: {:.2}s = {:.0} runs/s", dt, (threads * 2000) as f64 / dt);
}
