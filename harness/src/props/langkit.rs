//! Per-language construction kits: comment forms, code lines, decoys. A file is assembled from
//! segments; the expected blocks (attributes, position of `<`, content) are known from the
//! construction, never read back from the implementation.

use serde_json::{Value, json};

#[derive(Clone, Copy, Debug, PartialEq, Eq, Hash)]
pub enum FormKind {
    /// `<prefix> text` up to the end of the line.
    Line,
    /// `<open> l0 NL l1 NL l2 <close>`.
    Block,
    /// `<open> NL <cont> l0 NL <cont> l1 NL <close>` (decorated continuation lines).
    Decorated,
    /// Markdown link-reference comment: `[//]: # <open>text<close>` on one line.
    Md,
    /// `<open>` and `<close>` each on a line of their own at column 1, the text lines in
    /// between (Ruby's `=begin` … `=end`).
    Fenced,
}

#[derive(Clone, Copy, Debug)]
pub struct Form {
    pub kind: FormKind,
    pub open: &'static str,
    pub close: &'static str,
    /// Continuation prefix of decorated comments.
    pub cont: &'static str,
    /// Markdown comment families pair separately in blockwatch today; forms of different
    /// `family` are never mixed within one pair by the generator unless asked to.
    pub family: u8,
    /// Quote character for attribute values written inside this form (a Markdown title delimited
    /// by `"` cannot hold a `"`).
    pub quote: char,
    /// Code written right before / right after the comment on its line (the comment sits inside
    /// other syntax, e.g. the substitution of a template literal); not part of the comment.
    pub pre: &'static str,
    pub post: &'static str,
}

const fn line(open: &'static str) -> Form {
    Form { kind: FormKind::Line, open, close: "", cont: "", family: 0, quote: '"', pre: "", post: "" }
}
const fn block(open: &'static str, close: &'static str) -> Form {
    Form { kind: FormKind::Block, open, close, cont: "", family: 0, quote: '"', pre: "", post: "" }
}
const fn decorated(open: &'static str, cont: &'static str, close: &'static str) -> Form {
    Form { kind: FormKind::Decorated, open, close, cont, family: 0, quote: '"', pre: "", post: "" }
}

pub struct Kit {
    pub grammar: &'static str,
    /// File names, one per registered suffix of the grammar; the first is the representative.
    pub files: &'static [&'static str],
    pub prologue: &'static str,
    pub epilogue: &'static str,
    /// Valid statements of the language (may span lines, no trailing newline).
    pub code: &'static [&'static str],
    /// Tag text outside comments: string literals, markup, fenced code.
    pub decoys: &'static [&'static str],
    pub forms: &'static [Form],
    /// Every segment is followed by an empty line (Markdown block structure).
    pub blank_between: bool,
    /// Comments may be indented.
    pub indent_ok: bool,
}

const SLASH: &[Form] = &[line("//"), block("/*", "*/"), decorated("/**", " * ", " */")];
/// JavaScript family: a comment inside the substitution of a template literal is a comment
/// (the tag text in the literal's own text is not).
const SLASH_TEMPLATE: &[Form] = &[line("//"), block("/*", "*/"), decorated("/**", " * ", " */"), Form { kind: FormKind::Block, open: "/*", close: "*/", cont: "", family: 0, quote: '"', pre: "q = `a ${ ", post: " 1 } b`;" }];
/// Languages whose block comments nest: the tag sits in the inner comment of `/* o /* … */ o */`.
const SLASH_NESTING: &[Form] = &[line("//"), block("/*", "*/"), decorated("/**", " * ", " */"), block("/* o /*", "*/ o */")];
const HASH: &[Form] = &[line("#")];

pub const KITS: &[Kit] = &[
    // A `#!` comment that is not on the first line is a comment like any other (the prologue
    // keeps the kit's segments off line 1, where `#!` is the shebang).
    Kit { grammar: "bash", files: &["x.sh", "x.bash"], prologue: "x0=0\n", epilogue: "", code: &["x=1", "echo hi"],
          decoys: &["s=\"<block name=decoy> </block>\"", "echo '# <block name=decoy> </block>'"], forms: &[line("#"), line("#!")], blank_between: false, indent_ok: true },
    Kit { grammar: "c", files: &["x.c"], prologue: "", epilogue: "", code: &["int x = 1;", "void f(void) { }"],
          decoys: &["const char *s = \"<block name=decoy> </block>\";", "const char *t = \"// <block name=decoy> </block>\";"], forms: SLASH, blank_between: false, indent_ok: true },
    Kit { grammar: "cpp", files: &["x.cpp", "x.cc", "x.h"], prologue: "", epilogue: "", code: &["int x = 1;", "namespace n { }"],
          decoys: &["const char *s = \"<block name=decoy> </block>\";", "const char *t = \"/* <block name=decoy> </block> */\";"], forms: SLASH, blank_between: false, indent_ok: true },
    Kit { grammar: "c_sharp", files: &["x.cs"], prologue: "", epilogue: "", code: &["int x = 1;", "class A { }"],
          decoys: &["string s = \"<block name=decoy> </block>\";", "string t = \"// <block name=decoy> </block>\";"],
          forms: &[line("//"), line("///"), block("/*", "*/"), decorated("/**", " * ", " */")], blank_between: false, indent_ok: true },
    Kit { grammar: "css", files: &["x.css"], prologue: "", epilogue: "", code: &["a { color: red; }", "p { margin: 0; }"],
          decoys: &["a::after { content: \"<block name=decoy> </block>\"; }", "a::before { content: \"/* <block name=decoy> </block> */\"; }"],
          forms: &[block("/*", "*/"), decorated("/**", " * ", " */")], blank_between: false, indent_ok: true },
    Kit { grammar: "go", files: &["x.go"], prologue: "package main\n", epilogue: "", code: &["var x = 1", "func f() { }"],
          decoys: &["var s = \"<block name=decoy> </block>\"", "var t = `// <block name=decoy> </block>`"], forms: SLASH, blank_between: false, indent_ok: true },
    Kit { grammar: "go-mod", files: &["go.mod", "go.sum", "go.work"], prologue: "module example.com/my/module\n\ngo 1.21\n\n", epilogue: "",
          code: &["require github.com/some/dependency v1.2.3", "exclude github.com/bad/dependency v0.0.0"],
          decoys: &[], forms: &[line("//"), block("/*", "*/")], blank_between: false, indent_ok: false },
    Kit { grammar: "html", files: &["x.html", "x.htm"], prologue: "<!DOCTYPE html>\n", epilogue: "", code: &["<p>text</p>", "<div><span>a</span></div>"],
          decoys: &["<block name=\"decoy\"> </block>", "<p title=\"<block name=decoy> </block>\">t</p>", "<p title=\"<!-- <block name=decoy> </block> -->\">t</p>"], forms: &[block("<!--", "-->")], blank_between: false, indent_ok: true },
    Kit { grammar: "java", files: &["x.java"], prologue: "", epilogue: "", code: &["class A { int x = 1; }", "interface I { }"],
          decoys: &["class D { String s = \"<block name=decoy> </block>\"; }", "class E { String t = \"// <block name=decoy> </block>\"; }"], forms: SLASH, blank_between: false, indent_ok: true },
    Kit { grammar: "javascript", files: &["x.js", "x.jsx"], prologue: "", epilogue: "", code: &["let x = 1;", "function f() { }"],
          decoys: &["let s = \"<block name=decoy> </block>\";", "let t = `/* <block name=decoy> </block> */`;", "let e = <block name=\"decoy\"> </block>;"], forms: SLASH_TEMPLATE, blank_between: false, indent_ok: true },
    Kit { grammar: "kotlin", files: &["x.kt", "x.kts"], prologue: "", epilogue: "", code: &["val x = 1", "fun f() { }"],
          decoys: &["val s = \"<block name=decoy> </block>\"", "val t = \"// <block name=decoy> </block>\""], forms: SLASH_NESTING, blank_between: false, indent_ok: true },
    Kit { grammar: "makefile", files: &["Makefile", "makefile", "x.mk"], prologue: "", epilogue: "", code: &["X = 1", "all:\n\t@echo hi"],
          decoys: &["S = \"<block name=decoy> </block>\"", "t:\n\t@echo \"# <block name=decoy> </block>\""], forms: HASH, blank_between: false, indent_ok: false },
    Kit { grammar: "markdown", files: &["x.md", "x.markdown"], prologue: "# Title\n\n", epilogue: "", code: &["Some text here", "*More* text"],
          decoys: &["```\n[//]: # (<block name=decoy>)\n[//]: # (</block>)\n```", "text `<block name=decoy> </block>` text", "    <!-- <block name=decoy> </block> -->"],
          forms: &[
              Form { kind: FormKind::Md, open: "(", close: ")", cont: "", family: 0, quote: '"', pre: "", post: "" },
              Form { kind: FormKind::Md, open: "\"", close: "\"", cont: "", family: 0, quote: '\'', pre: "", post: "" },
              Form { kind: FormKind::Md, open: "'", close: "'", cont: "", family: 0, quote: '"', pre: "", post: "" },
              // The title of the link reference definition sits on the next line.
              Form { kind: FormKind::Md, open: "\n  (", close: ")", cont: "", family: 0, quote: '"', pre: "", post: "" },
              Form { kind: FormKind::Block, open: "<!--", close: "-->", cont: "", family: 1, quote: '"', pre: "", post: "" },
              // An HTML comment that opens a block quote (the HTML block does not start in the first
              // column); one-line layouts only. (A list item would turn the indented-code decoy that
              // may follow it into content of the item.)
              Form { kind: FormKind::Block, open: "<!--", close: "-->", cont: "", family: 1, quote: '"', pre: "> ", post: "" },
          ], blank_between: true, indent_ok: false },
    Kit { grammar: "php", files: &["x.php", "x.phtml"], prologue: "<?php\n", epilogue: "", code: &["$x = 1;", "function f() { }"],
          decoys: &["$s = \"<block name=decoy> </block>\";", "$t = '# <block name=decoy> </block>';"],
          forms: &[line("//"), line("#"), block("/*", "*/"), decorated("/**", " * ", " */")], blank_between: false, indent_ok: true },
    Kit { grammar: "python", files: &["x.py", "x.pyi"], prologue: "", epilogue: "", code: &["x = 1", "def f(): pass"],
          decoys: &["s = \"<block name=decoy> </block>\"", "t = \"# <block name=decoy> </block>\"", "\"\"\"\n# <block name=decoy> </block>\n\"\"\""], forms: HASH, blank_between: false, indent_ok: true },
    Kit { grammar: "ruby", files: &["x.rb"], prologue: "", epilogue: "", code: &["x = 1", "def f; end"],
          decoys: &["s = \"<block name=decoy> </block>\"", "t = '# <block name=decoy> </block>'"],
          forms: &[line("#"), Form { kind: FormKind::Fenced, open: "=begin", close: "=end", cont: "", family: 0, quote: '"', pre: "", post: "" }], blank_between: false, indent_ok: true },
    Kit { grammar: "rust", files: &["x.rs"], prologue: "", epilogue: "", code: &["const X: i32 = 1;", "fn f() { }"],
          decoys: &["const S: &str = \"<block name=decoy> </block>\";", "const T: &str = \"// <block name=decoy> </block>\";"],
          forms: &[line("//"), line("///"), line("//!"), block("/*", "*/"), decorated("/**", " * ", " */"), block("/* o /*", "*/ o */")], blank_between: false, indent_ok: true },
    Kit { grammar: "sql", files: &["x.sql"], prologue: "", epilogue: "", code: &["SELECT 1;", "SELECT * FROM users WHERE id = 1;"],
          decoys: &["SELECT '<block name=decoy> </block>';", "SELECT '-- <block name=decoy> </block>';"],
          forms: &[line("--"), block("/*", "*/")], blank_between: false, indent_ok: true },
    Kit { grammar: "swift", files: &["x.swift"], prologue: "", epilogue: "", code: &["let x = 1", "func f() { }"],
          decoys: &["let s = \"<block name=decoy> </block>\"", "let t = \"// <block name=decoy> </block>\"", "let u = \"/* <block name=decoy> </block> */\""], forms: SLASH_NESTING, blank_between: false, indent_ok: true },
    Kit { grammar: "toml", files: &["x.toml"], prologue: "", epilogue: "", code: &["x = 1", "[owner]"],
          decoys: &["s = \"<block name=decoy> </block>\"", "t = '# <block name=decoy> </block>'"], forms: HASH, blank_between: false, indent_ok: true },
    Kit { grammar: "tsx", files: &["x.tsx"], prologue: "", epilogue: "", code: &["let x: number = 1;", "function f(): void { }"],
          decoys: &["let s = \"<block name=decoy> </block>\";", "let e = <block name=\"decoy\"> </block>;"], forms: SLASH_TEMPLATE, blank_between: false, indent_ok: true },
    Kit { grammar: "typescript", files: &["x.ts", "x.d.ts"], prologue: "", epilogue: "", code: &["let x: number = 1;", "interface I { }"],
          decoys: &["let s = \"<block name=decoy> </block>\";", "let t = `// <block name=decoy> </block>`;"], forms: SLASH_TEMPLATE, blank_between: false, indent_ok: true },
    Kit { grammar: "xml", files: &["x.xml"], prologue: "<root>\n", epilogue: "</root>\n", code: &["<child>Value</child>", "<a b=\"c\"/>"],
          decoys: &["<block name=\"decoy\"> </block>", "<![CDATA[<!-- <block name=decoy> </block> -->]]>"], forms: &[block("<!--", "-->")], blank_between: false, indent_ok: true },
    Kit { grammar: "yaml", files: &["x.yaml", "x.yml"], prologue: "", epilogue: "", code: &["key: value", "list:\n  - item1"],
          decoys: &["s: \"<block name=decoy> </block>\"", "t: '# <block name=decoy> </block>'"], forms: HASH, blank_between: false, indent_ok: true },
];

pub fn kit(grammar: &str) -> Option<&'static Kit> {
    KITS.iter().find(|k| k.grammar == grammar)
}

#[derive(Clone, Copy, Debug, PartialEq, Eq, Hash)]
pub enum Tags {
    None,
    Open,
    Close,
    /// `<block …> </block>` in one comment: a block with no content.
    Pair,
    /// `</block> <block …>` in one comment: closes the current block and opens a sibling.
    CloseOpen,
    /// `<block …> <block …>` in one comment: a parent and its first child start together.
    OpenOpen,
    /// `</block> </block>` in one comment.
    CloseClose,
    /// `</block><block>`: an end tag directly followed by a bare start tag (no attributes, no
    /// space) as the very last text of the comment.
    CloseOpenBare,
    /// `<block name=…><block>`: a bare start tag as the very last text of the comment.
    OpenOpenBare,
}

/// Where the tag text sits inside the comment.
#[derive(Clone, Copy, Debug, PartialEq, Eq, Hash)]
pub enum Layout {
    /// One line, tag text only.
    Bare,
    /// One line, multi-byte text before and plain text after the tag text.
    Noisy,
    /// Three inner lines, tag text on line `k` (block forms only).
    Multi(u8),
    /// One line, the comment is indented by two spaces.
    Indented,
    /// One line, and the next segment continues on the same line (block forms only).
    SameLine,
    /// One line, appended to the line of the preceding code segment (`code  // </block>`).
    Trailing,
}

#[derive(Clone, Copy, Debug, PartialEq, Eq, Hash)]
pub enum Seg {
    Code(u8),
    Decoy(u8),
    Comment { form: u8, layout: Layout, tags: Tags },
}

#[derive(Clone, Debug)]
pub struct ExpBlock {
    pub name: String,
    /// The start tag also carries ` größe ключ=é1`.
    pub unicode: bool,
    /// Extra attributes as written (besides name).
    pub lt: usize,
    /// Byte offset of `>` of the start tag.
    pub gt: usize,
    pub content_start: usize,
    pub content_end: usize,
    pub same_comment: bool,
}

#[derive(Clone, Debug, Default)]
pub struct Rendered {
    pub text: String,
    pub blocks: Vec<ExpBlock>,
    /// (start offset, end offset) of every comment that holds a tag, with the tag offsets inside.
    pub tag_sites: Vec<TagSite>,
}

#[derive(Clone, Debug)]
pub struct TagSite {
    pub is_start: bool,
    pub offset: usize,
    pub len: usize,
    pub comment: (usize, usize),
}

impl Rendered {
    /// 1-based (line, byte column) of a byte offset.
    pub fn position(&self, offset: usize) -> (usize, usize) {
        let before = &self.text[..offset];
        let line = before.matches('\n').count() + 1;
        let col = offset - before.rfind('\n').map(|i| i + 1).unwrap_or(0) + 1;
        (line, col)
    }
    pub fn content(&self, b: &ExpBlock) -> &str {
        if b.same_comment { "" } else { &self.text[b.content_start..b.content_end] }
    }
}

struct Open {
    name: String,
    unicode: bool,
    lt: usize,
    gt: usize,
    comment_end: usize,
    comment_id: usize,
    family: u8,
}

pub struct Renderer<'k> {
    kit: &'k Kit,
    eol: &'static str,
    out: Rendered,
    stack: Vec<Open>,
    counter: usize,
    comment_id: usize,
    /// Extra attributes appended to every generated start tag (after the name).
    pub extra_attrs: String,
}

impl<'k> Renderer<'k> {
    pub fn new(kit: &'k Kit, crlf: bool) -> Self {
        let mut r = Self { kit, eol: if crlf { "\r\n" } else { "\n" }, out: Rendered::default(), stack: Vec::new(), counter: 0, comment_id: 0, extra_attrs: String::new() };
        let prologue = kit.prologue.replace('\n', r.eol);
        r.out.text.push_str(&prologue);
        r
    }

    pub fn depth(&self) -> usize {
        self.stack.len()
    }

    /// Byte offset at which the next segment will start.
    pub fn offset(&self) -> usize {
        self.out.text.len()
    }

    fn push_lines(&mut self, text: &str) {
        for (i, l) in text.split('\n').enumerate() {
            if i > 0 {
                self.out.text.push_str(self.eol);
            }
            self.out.text.push_str(l);
        }
    }

    fn end_segment(&mut self) {
        self.out.text.push_str(self.eol);
        if self.kit.blank_between {
            self.out.text.push_str(self.eol);
        }
    }

    pub fn raw(&mut self, text: &str) {
        self.push_lines(text);
        self.end_segment();
    }

    /// Whether `seg` can be appended when the open blocks' comment families are `open_families`
    /// (innermost last). With `cross_family` a closing tag may sit in a comment of another family
    /// than the start tag it closes (Markdown: link-reference comment vs HTML comment).
    pub fn applicable(kit: &Kit, open_families: &[u8], max_depth: usize, cross_family: bool, prev: Option<&Seg>, seg: &Seg) -> bool {
        let depth = open_families.len();
        match seg {
            Seg::Code(i) => (*i as usize) < kit.code.len(),
            Seg::Decoy(i) => (*i as usize) < kit.decoys.len(),
            Seg::Comment { form, layout, tags } => {
                let Some(f) = kit.forms.get(*form as usize) else { return false };
                let layout_ok = match (f.kind, layout) {
                    (_, Layout::Bare) | (_, Layout::Noisy) => true,
                    // A comment that opens a Markdown container stays on one line.
                    (FormKind::Block, Layout::Multi(_)) if kit.blank_between && !f.pre.is_empty() => false,
                    (FormKind::Block, Layout::Multi(_)) | (FormKind::Decorated, Layout::Multi(_)) | (FormKind::Fenced, Layout::Multi(_)) => true,
                    (FormKind::Fenced, Layout::Indented) => false,
                    (_, Layout::Multi(_)) => false,
                    (FormKind::Md, Layout::Indented) => false,
                    (_, Layout::Indented) => kit.indent_ok,
                    (FormKind::Block, Layout::SameLine) => !kit.blank_between,
                    (_, Layout::SameLine) => false,
                    // Only after a one-line code segment, and not in Markdown / Makefile recipes.
                    (FormKind::Line | FormKind::Block, Layout::Trailing) => {
                        !kit.blank_between && kit.indent_ok && matches!(prev, Some(Seg::Code(0)))
                    }
                    (_, Layout::Trailing) => false,
                };
                let family_ok = || cross_family || open_families.last() == Some(&f.family);
                let two_ok = || cross_family || (depth >= 2 && open_families[depth - 2] == f.family);
                let tags_ok = match tags {
                    Tags::None | Tags::Pair => true,
                    Tags::Open => depth < max_depth,
                    Tags::OpenOpen | Tags::OpenOpenBare => depth + 2 <= max_depth,
                    Tags::Close | Tags::CloseOpen | Tags::CloseOpenBare => depth > 0 && family_ok(),
                    Tags::CloseClose => depth >= 2 && family_ok() && two_ok(),
                };
                layout_ok && tags_ok
            }
        }
    }

    /// Families of the open blocks after `segs` (innermost last).
    pub fn open_families(kit: &Kit, segs: &[Seg]) -> Vec<u8> {
        let mut stack = Vec::new();
        for s in segs {
            if let Seg::Comment { form, tags, .. } = s {
                let family = kit.forms[*form as usize].family;
                match tags {
                    Tags::Open => stack.push(family),
                    Tags::Close => {
                        stack.pop();
                    }
                    Tags::CloseOpen | Tags::CloseOpenBare => {
                        stack.pop();
                        stack.push(family);
                    }
                    Tags::OpenOpen | Tags::OpenOpenBare => {
                        stack.push(family);
                        stack.push(family);
                    }
                    Tags::CloseClose => {
                        stack.pop();
                        stack.pop();
                    }
                    _ => {}
                }
            }
        }
        stack
    }

    /// Writes a start tag at the current position and returns (lt, gt).
    fn bare_tag(&mut self) -> (String, usize, usize) {
        let lt = self.out.text.len();
        self.out.text.push_str("<block>");
        (String::new(), lt, lt + 6)
    }

    fn start_tag(&mut self, quote: char) -> (String, usize, usize) {
        self.counter += 1;
        let name = format!("b{}", self.counter);
        let lt = self.out.text.len();
        // Extra attributes are written with the quote character of the comment form.
        // Every second tag also carries a bare attribute with a non-ASCII name and an unquoted
        // non-ASCII value (attribute names and unquoted values are not limited to ASCII).
        // … and a quoted value holding comment markers of other comment forms.
        let unicode = if self.counter % 2 == 0 { " größe ключ=é1 ref=\"a#b//c\"" } else { "" };
        let tag = format!("<block name={quote}{name}{quote}{}{}>", unicode.replace('"', &quote.to_string()), self.extra_attrs.replace('"', &quote.to_string()));
        self.out.text.push_str(&tag);
        (name, lt, lt + tag.len() - 1)
    }

    fn tag_text(&mut self, tags: Tags, quote: char, pending: &mut Vec<(bool, usize, usize)>, opened: &mut Vec<(String, usize, usize)>, closed: &mut usize) {
        match tags {
            Tags::None => self.out.text.push_str("just a note"),
            Tags::Open => {
                let (n, lt, gt) = self.start_tag(quote);
                pending.push((true, lt, gt - lt + 1));
                opened.push((n, lt, gt));
            }
            Tags::Close => {
                pending.push((false, self.out.text.len(), 8));
                self.out.text.push_str("</block>");
                *closed += 1;
            }
            Tags::Pair => {
                let (n, lt, gt) = self.start_tag(quote);
                pending.push((true, lt, gt - lt + 1));
                opened.push((n, lt, gt));
                self.out.text.push(' ');
                pending.push((false, self.out.text.len(), 8));
                self.out.text.push_str("</block>");
                *closed += 1;
            }
            Tags::CloseOpen => {
                pending.push((false, self.out.text.len(), 8));
                self.out.text.push_str("</block>");
                *closed += 1;
                self.out.text.push(' ');
                let (n, lt, gt) = self.start_tag(quote);
                pending.push((true, lt, gt - lt + 1));
                opened.push((n, lt, gt));
            }
            Tags::OpenOpen => {
                for i in 0..2 {
                    if i > 0 {
                        self.out.text.push(' ');
                    }
                    let (n, lt, gt) = self.start_tag(quote);
                    pending.push((true, lt, gt - lt + 1));
                    opened.push((n, lt, gt));
                }
            }
            Tags::CloseOpenBare => {
                pending.push((false, self.out.text.len(), 8));
                self.out.text.push_str("</block>");
                *closed += 1;
                let (n, lt, gt) = self.bare_tag();
                pending.push((true, lt, gt - lt + 1));
                opened.push((n, lt, gt));
            }
            Tags::OpenOpenBare => {
                let (n, lt, gt) = self.start_tag(quote);
                pending.push((true, lt, gt - lt + 1));
                opened.push((n, lt, gt));
                let (n, lt, gt) = self.bare_tag();
                pending.push((true, lt, gt - lt + 1));
                opened.push((n, lt, gt));
            }
            Tags::CloseClose => {
                for i in 0..2 {
                    if i > 0 {
                        self.out.text.push(' ');
                    }
                    pending.push((false, self.out.text.len(), 8));
                    self.out.text.push_str("</block>");
                    *closed += 1;
                }
            }
        }
    }

    pub fn comment(&mut self, form_idx: usize, layout: Layout, tags: Tags) {
        let form = self.kit.forms[form_idx];
        self.comment_id += 1;
        let id = self.comment_id;
        if layout == Layout::Indented {
            self.out.text.push_str("  ");
        }
        if layout == Layout::Trailing && self.out.text.ends_with(self.eol) {
            // Continue the previous (code) line.
            let len = self.out.text.len() - self.eol.len();
            self.out.text.truncate(len);
            self.out.text.push_str("  ");
        }
        self.out.text.push_str(form.pre);
        let comment_start = self.out.text.len();
        let mut pending = Vec::new();
        let mut opened = Vec::new();
        let mut closed = 0usize;
        // The order of events inside the comment matters for pairing: handle it after writing.
        let tag_line = match layout {
            Layout::Multi(k) => k as usize,
            _ => 0,
        };
        let n_lines = if matches!(layout, Layout::Multi(_)) { 3 } else { 1 };
        match form.kind {
            FormKind::Line => {
                self.out.text.push_str(form.open);
                self.out.text.push(' ');
            }
            FormKind::Block => {
                self.out.text.push_str(form.open);
                self.out.text.push(' ');
            }
            FormKind::Decorated => {
                self.out.text.push_str(form.open);
                self.out.text.push_str(self.eol);
                self.out.text.push_str(form.cont);
            }
            FormKind::Md => {
                self.out.text.push_str("[//]: # ");
                self.out.text.push_str(form.open);
            }
            FormKind::Fenced => {
                self.out.text.push_str(form.open);
                self.out.text.push_str(self.eol);
            }
        }
        for i in 0..n_lines {
            if i > 0 {
                self.out.text.push_str(self.eol);
                if form.kind == FormKind::Decorated {
                    self.out.text.push_str(form.cont);
                }
            }
            if i == tag_line {
                if layout == Layout::Noisy {
                    self.out.text.push_str("é≤ text ");
                }
                self.tag_text(tags, form.quote, &mut pending, &mut opened, &mut closed);
                if layout == Layout::Noisy {
                    self.out.text.push_str(" tail text");
                }
            } else {
                self.out.text.push_str(["first note", "middle note", "last note"][i]);
            }
        }
        match form.kind {
            FormKind::Line => {}
            FormKind::Block => {
                self.out.text.push(' ');
                self.out.text.push_str(form.close);
            }
            FormKind::Decorated => {
                self.out.text.push_str(self.eol);
                self.out.text.push_str(form.close);
            }
            FormKind::Md => self.out.text.push_str(form.close),
            FormKind::Fenced => {
                self.out.text.push_str(self.eol);
                self.out.text.push_str(form.close);
            }
        }
        let comment_end = self.out.text.len();
        self.out.text.push_str(form.post);
        for (is_start, offset, len) in pending {
            self.out.tag_sites.push(TagSite { is_start, offset, len, comment: (comment_start, comment_end) });
        }
        // Pairing, in the order the tags appear in the comment.
        let events: Vec<Tags> = match tags {
            Tags::Pair => vec![Tags::Open, Tags::Close],
            Tags::CloseOpen | Tags::CloseOpenBare => vec![Tags::Close, Tags::Open],
            Tags::OpenOpen | Tags::OpenOpenBare => vec![Tags::Open, Tags::Open],
            Tags::CloseClose => vec![Tags::Close, Tags::Close],
            t => vec![t],
        };
        let mut opened_iter = opened.into_iter();
        for e in events {
            match e {
                Tags::Open => {
                    let (name, lt, gt) = opened_iter.next().expect("opened tag");
                    let unicode = self.out.text[lt..=gt].contains("größe");
                    self.stack.push(Open { name, unicode, lt, gt, comment_end, comment_id: id, family: form.family });
                }
                Tags::Close => {
                    let open = self.stack.pop().expect("generator never closes at depth 0");
                    self.out.blocks.push(ExpBlock {
                        name: open.name,
                        unicode: open.unicode,
                        lt: open.lt,
                        gt: open.gt,
                        content_start: open.comment_end,
                        content_end: comment_start,
                        same_comment: open.comment_id == id,
                    });
                }
                _ => {}
            }
        }
        let _ = closed;
        if layout == Layout::SameLine {
            self.out.text.push(' ');
        } else {
            self.end_segment();
        }
    }

    pub fn seg(&mut self, seg: &Seg) {
        match seg {
            Seg::Code(i) => {
                let text = self.kit.code[*i as usize];
                self.raw(text);
            }
            Seg::Decoy(i) => {
                let text = self.kit.decoys[*i as usize];
                self.raw(text);
            }
            Seg::Comment { form, layout, tags } => self.comment(*form as usize, *layout, *tags),
        }
    }

    /// Closes every open block with a one-line comment of the first form of the same family as
    /// the block's start comment, appends the epilogue and returns the file with its expected
    /// blocks sorted in source order.
    pub fn finish(mut self) -> Rendered {
        while let Some(open) = self.stack.last() {
            let family = open.family;
            let closer = self.kit.forms.iter().position(|f| f.family == family && f.kind != FormKind::Decorated).unwrap_or(0);
            self.comment(closer, Layout::Bare, Tags::Close);
        }
        let epilogue = self.kit.epilogue.replace('\n', self.eol);
        self.out.text.push_str(&epilogue);
        self.out.blocks.sort_by_key(|b| b.lt);
        self.out
    }
}

/// The alphabet of a kit (all segments that can ever be applicable).
pub fn alphabet(kit: &Kit, rich: bool) -> Vec<Seg> {
    let mut v = Vec::new();
    for i in 0..kit.code.len().min(if rich { 2 } else { 1 }) {
        v.push(Seg::Code(i as u8));
    }
    for i in 0..kit.decoys.len() {
        v.push(Seg::Decoy(i as u8));
    }
    for (fi, f) in kit.forms.iter().enumerate() {
        let mut layouts = vec![Layout::Bare, Layout::Noisy];
        if matches!(f.kind, FormKind::Block | FormKind::Decorated) {
            layouts.extend([Layout::Multi(0), Layout::Multi(1), Layout::Multi(2)]);
        }
        if kit.indent_ok && f.kind != FormKind::Md {
            layouts.push(Layout::Indented);
        }
        if f.kind == FormKind::Block && !kit.blank_between {
            layouts.push(Layout::SameLine);
        }
        if matches!(f.kind, FormKind::Line | FormKind::Block) && !kit.blank_between && kit.indent_ok {
            layouts.push(Layout::Trailing);
        }
        for layout in layouts {
            let tag_kinds: &[Tags] = match layout {
                Layout::Bare => &[Tags::None, Tags::Open, Tags::Close, Tags::Pair, Tags::CloseOpen, Tags::OpenOpen, Tags::CloseClose, Tags::CloseOpenBare, Tags::OpenOpenBare],
                Layout::Noisy => &[Tags::Open, Tags::Close, Tags::Pair],
                Layout::Multi(_) => if rich { &[Tags::Open, Tags::Close, Tags::Pair] } else { &[Tags::Open, Tags::Close] },
                Layout::Indented => &[Tags::Open, Tags::Close],
                Layout::SameLine => &[Tags::Open, Tags::Close, Tags::None],
                Layout::Trailing => &[Tags::Open, Tags::Close],
            };
            for &tags in tag_kinds {
                v.push(Seg::Comment { form: fi as u8, layout, tags });
            }
        }
    }
    v
}

pub fn seg_json(s: &Seg) -> Value {
    match s {
        Seg::Code(i) => json!({"code": i}),
        Seg::Decoy(i) => json!({"decoy": i}),
        Seg::Comment { form, layout, tags } => json!({"form": form, "layout": format!("{layout:?}"), "tags": format!("{tags:?}")}),
    }
}

pub fn seg_from_json(v: &Value) -> Option<Seg> {
    if let Some(i) = v.get("code") {
        return Some(Seg::Code(i.as_u64()? as u8));
    }
    if let Some(i) = v.get("decoy") {
        return Some(Seg::Decoy(i.as_u64()? as u8));
    }
    let layout = match v.get("layout")?.as_str()? {
        "Bare" => Layout::Bare,
        "Noisy" => Layout::Noisy,
        "Indented" => Layout::Indented,
        "SameLine" => Layout::SameLine,
        "Trailing" => Layout::Trailing,
        "Multi(0)" => Layout::Multi(0),
        "Multi(1)" => Layout::Multi(1),
        "Multi(2)" => Layout::Multi(2),
        _ => return None,
    };
    let tags = match v.get("tags")?.as_str()? {
        "None" => Tags::None,
        "Open" => Tags::Open,
        "Close" => Tags::Close,
        "Pair" => Tags::Pair,
        "CloseOpen" => Tags::CloseOpen,
        "OpenOpen" => Tags::OpenOpen,
        "CloseClose" => Tags::CloseClose,
        "CloseOpenBare" => Tags::CloseOpenBare,
        "OpenOpenBare" => Tags::OpenOpenBare,
        _ => return None,
    };
    Some(Seg::Comment { form: v.get("form")?.as_u64()? as u8, layout, tags })
}
