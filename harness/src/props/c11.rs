//! C11: exit status and report follow the diagnostics and their severity. E1 over repository
//! configurations (blocks with rule combinations, violating or not, and severities) through the
//! real CLI (status, stderr, stdout, `list`), plus E2 over block-map and validator-body orders
//! through the library for the "every violation exactly once" clause.

use crate::cli::{self, Scratch};
use crate::core::{Cfg, Report, Sink, permutations};
use crate::e2;
use crate::engine;
use crate::librun::{Diag, Input, Outcome};
use serde_json::{Value, json};
use std::sync::Arc;
use std::sync::atomic::{AtomicU64, Ordering};

/// Rule combinations of a block: per rule 0 absent, 1 satisfied, 2 violated — (sorted, unique, pattern, count).
pub const COMBOS: &[[u8; 4]] = &[
    [0, 0, 0, 0],
    [2, 0, 0, 0],
    [0, 2, 0, 0],
    [0, 0, 2, 0],
    [0, 0, 0, 2],
    [1, 1, 1, 1],
    [2, 2, 0, 0],
    [2, 2, 2, 2],
    [1, 0, 0, 2],
    [0, 0, 2, 2],
    [2, 1, 1, 1],
    // 3 = violated on a line shared with another violated rule: the sort and the pattern
    // diagnostics then start at the same position.
    [3, 0, 3, 0],
    [3, 1, 3, 2],
];
pub const SEVERITIES: &[(&str, u64)] = &[("", 1), ("error", 1), ("warning", 2), ("info", 3), ("hint", 4), ("WARNING", 2), ("Hint", 4)];
pub const CODES: [&str; 4] = ["keep-sorted", "keep-unique", "line-pattern", "line-count"];
// The first name holds a backslash (a legal file-name character on Unix): it differs from the second
// only by `\` versus `/`, so a report keyed by a "normalised" path would merge the two files.
const FILES: &[&str] = &["d\\y.py", "d/y.py"];

#[derive(Clone, Debug)]
pub struct BlockSpec {
    pub file: usize,
    pub combo: usize,
    pub severity: usize,
}

pub fn decode(s: u16) -> BlockSpec {
    let s = s as usize;
    BlockSpec { file: s % 2, combo: (s / 2) % COMBOS.len(), severity: s / 2 / COMBOS.len() }
}

pub const ALPHABET: usize = 2 * COMBOS.len() * SEVERITIES.len();

/// (file, tag line, code, severity) expected by construction.
pub type Expected = Vec<(String, usize, String, u64)>;

pub fn build(blocks: &[BlockSpec]) -> (Vec<(String, String)>, Expected) {
    let mut texts = vec![String::new(); FILES.len()];
    let mut lines = vec![1usize; FILES.len()];
    let mut expected = Vec::new();
    for (i, b) in blocks.iter().enumerate() {
        let combo = COMBOS[b.combo];
        let (sev_text, sev) = SEVERITIES[b.severity];
        let mut attrs = format!("name=\"n{i}\"");
        if combo[0] > 0 {
            attrs.push_str(" keep-sorted");
        }
        if combo[1] > 0 {
            attrs.push_str(" keep-unique");
        }
        if combo[2] > 0 {
            attrs.push_str(" line-pattern=\"^[a-z0-9 =]+$\"");
        }
        if combo[3] > 0 {
            attrs.push_str(if combo[3] == 2 { " line-count=\"<1\"" } else { " line-count=\"<9\"" });
        }
        if !sev_text.is_empty() {
            attrs.push_str(&format!(" severity=\"{sev_text}\""));
        }
        // Content: sorted unless the sort rule is to be violated; a duplicate iff uniqueness is to
        // be violated; a line with `!` iff the pattern is to be violated.
        let mut content: Vec<String> = if combo[0] == 3 {
            vec!["b1 = 1".into(), "a1 = 1!".into()]
        } else if combo[0] == 2 {
            vec!["b1 = 1".into(), "a1 = 1".into()]
        } else {
            vec!["a1 = 1".into(), "b1 = 1".into()]
        };
        if combo[1] == 2 {
            let last = content.last().unwrap().clone();
            content.push(last);
        }
        if combo[2] == 2 {
            content.push("zz = 1!".into());
        }
        let f = b.file;
        let tag_line = lines[f];
        texts[f].push_str(&format!("# <block {attrs}>\n{}\n# </block>\nfiller{i} = 0\n", content.join("\n")));
        lines[f] += content.len() + 3;
        for (r, code) in CODES.iter().enumerate() {
            if combo[r] >= 2 {
                expected.push((FILES[f].to_string(), tag_line, code.to_string(), sev));
            }
        }
    }
    let files = FILES.iter().zip(texts).filter(|(_, t)| !t.is_empty()).map(|(n, t)| (n.to_string(), t)).collect();
    expected.sort();
    (files, expected)
}

/// (file, tag line of the block, code, severity) of observed diagnostics.
pub fn observed(diags: &[Diag]) -> Expected {
    let re = regex::Regex::new(r"defined at line (\d+)").unwrap();
    let mut v: Expected = diags
        .iter()
        .map(|d| (d.file.clone(), re.captures(&d.message).and_then(|c| c[1].parse().ok()).unwrap_or(0), d.code.clone(), d.severity))
        .collect();
    v.sort();
    v
}

thread_local! {
    static REPO: Scratch = Scratch::repo("c11");
}

fn check_cli(cfg: &Cfg, seq: &[u16], sink: &Sink) {
    let blocks: Vec<BlockSpec> = seq.iter().map(|&s| decode(s)).collect();
    let (files, expected) = build(&blocks);
    let input = json!({"blocks": seq});
    REPO.with(|repo| {
        repo.clear();
        for (name, text) in &files {
            repo.write(name, text);
        }
        sink.execs(2);
        let run = cli::blockwatch(&cfg.bin, &repo.dir, &[], None, &[], 30);
        let list = cli::blockwatch(&cfg.bin, &repo.dir, &["list"], None, &[], 30);
        let describe = |extra: &str| format!("blocks {:?}: {extra}\n{}", blocks, run.summary());
        if run.panicked() || run.timed_out {
            sink.fail("C11:crash", describe("crash or timeout"), input.clone());
            return;
        }
        let want_status = if expected.iter().any(|e| e.3 == 1) { 1 } else { 0 };
        sink.outcome(format!("cli:status={:?}:diags={}", run.code, expected.len().min(3)));
        if run.code != Some(want_status) {
            sink.fail(format!("C11:wrong-exit-status:expected-{want_status}"), describe(&format!("expected diagnostics {expected:?}")), input.clone());
        }
        if !run.stdout.is_empty() {
            sink.fail("C11:stdout-not-empty", describe("a validation run prints nothing on stdout"), input.clone());
        }
        if expected.is_empty() {
            if !run.stderr.is_empty() {
                sink.fail("C11:output-without-diagnostics", describe("nothing must be printed when there are no diagnostics"), input.clone());
            }
        } else {
            match run.diags() {
                Err(e) => sink.fail("C11:stderr-is-not-one-json-object", describe(&e), input.clone()),
                Ok(diags) => {
                    let got = observed(&diags);
                    if got != expected {
                        let kind = if got.len() < expected.len() { "diagnostic-lost" } else if got.len() > expected.len() { "diagnostic-duplicated-or-spurious" } else { "diagnostic-differs" };
                        sink.fail(format!("C11:{kind}"), describe(&format!("expected (file, block line, code, severity) {expected:?}, got {got:?}")), input.clone());
                    }
                    // Shape: root-relative paths as keys, ranges and numeric severities 1–4.
                    let value: Value = serde_json::from_str(run.stderr.trim()).unwrap_or(Value::Null);
                    for (file, list) in value.as_object().into_iter().flatten() {
                        if !files.iter().any(|f| &f.0 == file) {
                            sink.fail("C11:key-is-not-a-root-relative-path", describe(file), input.clone());
                        }
                        for d in list.as_array().into_iter().flatten() {
                            let sev = d["severity"].as_u64().unwrap_or(0);
                            if !(1..=4).contains(&sev) || d["range"]["start"]["line"].as_u64().is_none() || d["code"].as_str().is_none() || d["message"].as_str().is_none() {
                                sink.fail("C11:diagnostic-shape", describe(&d.to_string()), input.clone());
                            }
                        }
                    }
                }
            }
        }
        // Diff mode: every line added, plus a path argument that matches no file — the blocks are
        // all modified and named by the diff, so report and status are those of the scan.
        if !files.is_empty() && (seq.len() <= 1 || decode(seq[1]).severity == 0) {
            sink.exec();
            let diff: String = files.iter().map(|(n, t)| cli::new_file_diff(n, t)).collect();
            let drun = cli::blockwatch(&cfg.bin, &repo.dir, &["nomatch/**"], Some(&diff), &[], 30);
            let got = drun.diags().map(|d| observed(&d)).unwrap_or_default();
            sink.outcome(format!("cli:diff+other-glob:status={:?}", drun.code));
            if drun.panicked() || drun.code != Some(want_status) || got != expected {
                sink.fail("C11:diff-mode-report-differs", format!("blocks {:?}: diff naming every file + path argument `nomatch/**`: expected status {want_status} and {expected:?}, got {got:?}\n{}", blocks, drun.summary()), input.clone());
            }
        }
        // `list`: one JSON object on stdout, exit 0, whatever the violations.
        let listed: Value = serde_json::from_str(&list.stdout).unwrap_or(Value::Null);
        let listed_blocks: usize = listed.as_object().map(|o| o.values().map(|v| v.as_array().map(|a| a.len()).unwrap_or(0)).sum()).unwrap_or(usize::MAX);
        if list.code != Some(0) || !listed.is_object() || listed_blocks != blocks.len() || !list.stderr.is_empty() {
            sink.fail("C11:list", format!("blocks {:?}: `list` must print the {} blocks as one JSON object and exit 0: {}", blocks, blocks.len(), list.summary()), input.clone());
        }
    });
    if !blocks.is_empty() {
        sink.nontrivial();
    }
    if blocks.len() == 2 {
        sink.sample(|| json!({"input": input, "files": files, "expected": expected}));
    }
}

/// Library run under every block-map order and every order of the validator bodies.
fn check_orders(seq: &[u16], sink: &Sink) -> u64 {
    let blocks: Vec<BlockSpec> = seq.iter().map(|&s| decode(s)).collect();
    let (files, expected) = build(&blocks);
    let input_json = json!({"blocks": seq, "orders": true});
    let names: Vec<String> = files.iter().map(|f| f.0.clone()).collect();
    let mut schedules = 0;
    for order in permutations(names.len()) {
        let map_order: Vec<String> = order.iter().map(|&i| names[i].clone()).collect();
        let input = Input { files: files.clone(), map_order: Some(map_order.clone()), ..Default::default() };
        let stats = e2::explore(&input, None, 5000, |outcome, trace| {
            sink.exec();
            let schedule = trace.iter().map(|c| format!("{}:{}/{}", c.label, c.chosen, c.options)).collect::<Vec<_>>().join(" ");
            match outcome {
                Outcome::Report { diags, .. } => {
                    let got = observed(diags);
                    sink.outcome(format!("orders:diags={}", got.len().min(4)));
                    if got != expected {
                        let kind = if got.len() < expected.len() { "diagnostic-lost" } else if got.len() > expected.len() { "diagnostic-duplicated-or-spurious" } else { "diagnostic-differs" };
                        sink.fail(format!("C11:orders:{kind}"), format!("blocks {blocks:?}, map order {map_order:?}, schedule [{schedule}]: expected {expected:?}, got {got:?}"), input_json.clone());
                    }
                    let want_status = if expected.iter().any(|e| e.3 == 1) { 1 } else { 0 };
                    if outcome.exit_status() != want_status {
                        sink.fail("C11:orders:status", format!("blocks {blocks:?}: status {}", outcome.exit_status()), input_json.clone());
                    }
                }
                other => sink.fail("C11:orders:unexpected-outcome", format!("blocks {blocks:?}, schedule [{schedule}]: {}", other.to_json()), input_json.clone()),
            }
        });
        if stats.divergence.is_some() || stats.capped {
            sink.machinery(format!("C11 orders: divergence {:?} capped {}", stats.divergence, stats.capped));
        }
        schedules += stats.schedules;
    }
    schedules
}

pub fn run(cfg: &Cfg, sink: &Arc<Sink>) -> Report {
    let mut report = Report::new("states = repositories of ≤2 (thorough ≤3) blocks; a block = file ∈ {`d\\y.py` (backslash in the name), d/y.py} × rule combination (11 combinations of sorted/unique/pattern/count, each absent, satisfied or violated, built so that exactly the intended rules are violated) × severity ∈ {unset, error, warning, info, hint, WARNING, Hint}; each state is written to a scratch repository and run through the real CLI (scan mode and `list`): exit status 1 iff an error-severity diagnostic is expected, stderr one JSON object holding every expected (file, block, code, severity) exactly once with root-relative keys and well-formed entries, nothing printed without diagnostics, `list` prints all blocks and exits 0; the same states are run through the library under every block-map order and every order of the validator thread bodies (E2) for the exactly-once clause; non-trivial = every non-empty repository");
    report.assume("which rules a block violates is fixed by construction (C06–C09 decide the rule semantics)");
    let cfg2 = cfg.clone();
    let max = cfg.tier.pick(2, 3);
    report.phase(engine::explore(
        "repositories through the CLI",
        &format!("all sequences of ≤{max} blocks over {ALPHABET} block kinds (second block: severities unset/warning; third block: first file, 4 combinations)"),
        Sequences16 { alphabet: ALPHABET as u16, max_len: max, check: Box::new(move |seq: &[u16], sink: &Sink| check_cli(&cfg2, seq, sink)) },
        sink,
        cfg.threads,
        false,
    ));
    let schedules = Arc::new(AtomicU64::new(0));
    let s2 = Arc::clone(&schedules);
    report.phase(engine::explore(
        "repositories × map orders × validator-body orders (library)",
        "all sequences of ≤2 blocks; per state every map order × every schedule of the seams",
        Sequences16 { alphabet: ALPHABET as u16, max_len: 2, check: Box::new(move |seq: &[u16], sink: &Sink| { s2.fetch_add(check_orders(seq, sink), Ordering::Relaxed); }) },
        sink,
        cfg.threads,
        false,
    ));
    report.extra.insert("schedules_executed".into(), json!(schedules.load(Ordering::Relaxed)));
    report
}

/// Sequences over a `u16` alphabet; from the third element on only a reduced alphabet is used.
pub struct Sequences16 {
    pub alphabet: u16,
    pub max_len: usize,
    pub check: Box<dyn Fn(&[u16], &Sink) + Send + Sync>,
}

impl engine::Space for Sequences16 {
    type State = Vec<u16>;
    fn init(&self) -> Vec<Vec<u16>> {
        vec![Vec::new()]
    }
    fn succ(&self, state: &Vec<u16>) -> Vec<Vec<u16>> {
        if state.len() >= self.max_len {
            return Vec::new();
        }
        (0..self.alphabet)
            .filter(|&a| {
                let b = decode(a);
                match state.len() {
                    0 => true,
                    // Second block: every combination and file, severities {unset, warning}.
                    1 => b.severity == 0 || b.severity == 2,
                    // Third block: first file, combos {none, all violated, sorted violated, count violated}.
                    _ => b.file == 0 && [0usize, 7, 1, 4].contains(&b.combo) && (b.severity == 0 || b.severity == 2),
                }
            })
            .map(|a| {
                let mut next = state.clone();
                next.push(a);
                next
            })
            .collect()
    }
    fn check(&self, state: &Vec<u16>, sink: &Sink) {
        (self.check)(state, sink)
    }
}

pub fn replay(cfg: &Cfg, input: &Value, sink: &Arc<Sink>) {
    let seq: Vec<u16> = input["blocks"].as_array().map(|a| a.iter().filter_map(|v| v.as_u64().map(|x| x as u16)).collect()).unwrap_or_default();
    if input.get("orders").is_some() {
        check_orders(&seq, sink);
    } else {
        check_cli(cfg, &seq, sink);
    }
}
