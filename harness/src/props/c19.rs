//! C19: check-ai — the request is faithful, the reply decides, endpoint faults fail closed.
//! E1 over block sets (reply or fault per block) × E2 over every delivery order of the check-ai
//! JoinSet, against the FakeAi endpoint, whose behaviour is keyed by the request's own content.

use crate::core::{Cfg, Phase, Report, Sink};
use crate::e2;
use crate::engine::{self, Grid, Sequences};
use crate::fakeai::{FAULTS, FakeAi, REPLIES, Recorded, reply_text};
use crate::librun::{self, Input, Outcome};
use crate::props::rules::first_line;
use regex::Regex;
use serde_json::{Value, json};
use std::sync::Arc;
use std::sync::atomic::{AtomicU64, Ordering};

const KEY: &str = "sk-fake-key-123";
const MODEL: &str = "fake-model-7";
static NONCE: AtomicU64 = AtomicU64::new(0);

fn behaviours() -> Vec<&'static str> {
    REPLIES.iter().map(|(k, _)| *k).chain(FAULTS.iter().copied()).collect()
}

fn is_fault(b: &str) -> bool {
    FAULTS.contains(&b)
}

fn is_ok_reply(text: &str) -> bool {
    // "OK (any letter case, optional final period)"
    let t = text.strip_suffix('.').unwrap_or(text);
    t.len() == 2 && t.eq_ignore_ascii_case("ok")
}

fn set_env(url: &str, key: Option<&str>) {
    unsafe {
        // Ambient variables of the OpenAI client library must never stand in for BLOCKWATCH_AI_*.
        std::env::set_var("OPENAI_API_KEY", "sk-ambient-key-must-not-be-used");
        std::env::set_var("OPENAI_BASE_URL", &FakeAi::global().url);
        std::env::set_var("OPENAI_ADMIN_KEY", "sk-ambient-admin");
        std::env::set_var("BLOCKWATCH_AI_API_URL", url);
        std::env::set_var("BLOCKWATCH_AI_MODEL", MODEL);
        match key {
            Some(k) => std::env::set_var("BLOCKWATCH_AI_API_KEY", k),
            None => std::env::remove_var("BLOCKWATCH_AI_API_KEY"),
        }
    }
}

struct Plan {
    id: String,
    behaviour: &'static str,
    file: &'static str,
    tag_line: usize,
    condition: String,
    content: String,
}

fn build(blocks: &[(usize, usize)], nonce: &str) -> (Vec<(String, String)>, Vec<Plan>) {
    let files = ["a.py", "sub/b.py"];
    let all = behaviours();
    let mut texts = vec![String::new(); 2];
    let mut lines = vec![1usize; 2];
    let mut plans = Vec::new();
    for (i, (b, f)) in blocks.iter().enumerate() {
        let id = format!("k{i}");
        let condition = format!("case={nonce}-{id};reply={}; must be 'fine' \\ é", all[*b]);
        let content = format!("value_{i} = \"q{i}\"");
        texts[*f].push_str(&format!("# <block id=\"{id}\" check-ai=\"{condition}\">\n{content}\n# </block>\nfiller_{i} = 0\n"));
        plans.push(Plan { id, behaviour: all[*b], file: files[*f], tag_line: lines[*f], condition, content });
        lines[*f] += 4;
    }
    let out = files.iter().zip(texts).filter(|(_, t)| !t.is_empty()).map(|(n, t)| (n.to_string(), t)).collect();
    (out, plans)
}

fn check_request(p: &Plan, r: &Recorded, describe: &dyn Fn(&str) -> String, input: &Value, sink: &Sink) {
    let want_user = format!("CONDITION:\n{}\n\nBLOCK (formatting preserved):\n{}", p.condition, p.content);
    if r.method != "POST" || r.path != "/v1/chat/completions" {
        sink.fail("C19:wrong-endpoint", describe(&format!("{} {}", r.method, r.path)), input.clone());
    }
    if r.authorization.as_deref() != Some(&format!("Bearer {KEY}")) {
        sink.fail("C19:wrong-key", describe(&format!("Authorization: {:?}", r.authorization)), input.clone());
    }
    if r.model.as_deref() != Some(MODEL) {
        sink.fail("C19:wrong-model", describe(&format!("model {:?}", r.model)), input.clone());
    }
    if r.user.as_deref() != Some(want_user.as_str()) {
        sink.fail("C19:request-not-verbatim", describe(&format!("user message {:?}, expected {:?}", r.user, want_user)), input.clone());
    }
}

fn judge(plans: &[Plan], outcome: &Outcome, nonce: &str, schedule: &str, input: &Value, sink: &Sink) {
    let server = FakeAi::global();
    let faulty: Vec<&Plan> = plans.iter().filter(|p| is_fault(p.behaviour)).collect();
    let describe = |extra: &str| format!("blocks {:?}, schedule [{schedule}]: {extra}", plans.iter().map(|p| format!("{}:{}@{}", p.id, p.behaviour, p.file)).collect::<Vec<_>>());
    if !faulty.is_empty() {
        server.quiesce();
    }
    for p in plans {
        let requests = server.take(&format!("{nonce}-{}", p.id));
        if requests.len() > 1 {
            sink.fail("C19:more-than-one-request", describe(&format!("{} requests for {}", requests.len(), p.id)), input.clone());
        }
        if faulty.is_empty() && requests.len() != 1 {
            sink.fail("C19:request-count", describe(&format!("{} requests for {} although nothing fails", requests.len(), p.id)), input.clone());
        }
        for r in &requests {
            check_request(p, r, &describe, input, sink);
        }
    }
    match outcome {
        Outcome::Panic { message } => sink.fail(format!("C19:panic:{}", first_line(message)), describe(message), input.clone()),
        Outcome::Error { stage, message, .. } => {
            if faulty.is_empty() {
                sink.fail(format!("C19:unexpected-error:{stage}"), describe(&first_line(message)), input.clone());
            }
        }
        Outcome::Report { diags, .. } => {
            if let Some(f) = faulty.first() {
                sink.fail(format!("C19:fault-masked:{}", f.behaviour), describe(&format!("block {} gets endpoint fault {} but the run succeeded with {} diagnostics", f.id, f.behaviour, diags.len())), input.clone());
                return;
            }
            for p in plans {
                let reply = reply_text(p.behaviour).unwrap_or("");
                let mine: Vec<_> = diags.iter().filter(|d| d.code == "check-ai" && d.file == p.file && d.range.0 as usize == p.tag_line).collect();
                let want = if is_ok_reply(reply) { 0 } else { 1 };
                if mine.len() != want {
                    sink.fail(format!("C19:wrong-diagnostic-count:{}", p.behaviour), describe(&format!("reply {reply:?} for {}: {} diagnostics, expected {want}", p.id, mine.len())), input.clone());
                }
                for d in mine {
                    if d.data.get("ai_message").and_then(Value::as_str) != Some(reply) || !d.message.contains(reply) {
                        sink.fail("C19:diagnostic-does-not-quote-reply", describe(&format!("{}: {} / {}", p.id, d.message, d.data)), input.clone());
                    }
                    // The tag range: from `<` (column 3) to `>`.
                    let tag_len = format!("<block id=\"{}\" check-ai=\"{}\">", p.id, p.condition).len() as u64;
                    if (d.range.1, d.range.2, d.range.3) != (3, p.tag_line as u64, 3 + tag_len - 1) {
                        sink.fail("C19:range-is-not-the-start-tag", describe(&format!("{:?}", d.range)), input.clone());
                    }
                }
            }
            if diags.iter().any(|d| d.code != "check-ai") {
                sink.fail("C19:stray-diagnostic", describe("non check-ai diagnostic"), input.clone());
            }
        }
    }
}

fn schedule_text(trace: &[blockwatch::verif_hooks::Choice]) -> String {
    trace.iter().map(|c| format!("{}:{}/{}", c.label, c.chosen, c.options)).collect::<Vec<_>>().join(" ")
}

fn check_blocks(blocks: &[(usize, usize)], sink: &Sink) -> u64 {
    // One nonce per execution: a request of an aborted task that reaches the endpoint late can
    // then never be counted for a later schedule.
    let base = format!("n{}", NONCE.fetch_add(1, Ordering::Relaxed));
    let (files, _) = build(blocks, &base);
    let input_json = json!({"blocks": blocks.iter().map(|(b, f)| json!([b, f])).collect::<Vec<_>>()});
    let names: Vec<String> = files.iter().map(|f| f.0.clone()).collect();
    let mut total = 0;
    for (oi, order) in crate::core::permutations(names.len()).into_iter().enumerate() {
    let map_order: Vec<String> = order.iter().map(|&i| names[i].clone()).collect();
    let make = |schedule: u64| Input { files: build(blocks, &format!("{base}o{oi}s{schedule}")).0, map_order: Some(map_order.clone()), ..Default::default() };
    let stats = e2::explore_with(make, None, 2000, |schedule, outcome, trace| {
        let nonce = format!("{base}o{oi}s{schedule}");
        let plans = build(blocks, &nonce).1;
        sink.exec();
        sink.outcome(format!("k={}:{}:faults={}", blocks.len(), outcome.class(), plans.iter().filter(|p| is_fault(p.behaviour)).count().min(2)));
        judge(&plans, outcome, &nonce, &schedule_text(trace), &input_json, sink);
    });
    if let Some(d) = &stats.divergence {
        sink.machinery(format!("C19: replay divergence: {d}"));
    }
    if stats.capped {
        sink.machinery("C19: schedule cap hit");
    }
    total += stats.schedules;
    }
    if !blocks.is_empty() {
        sink.nontrivial();
    }
    if blocks.len() == 2 {
        sink.sample(|| json!({"input": input_json, "files": files}));
    }
    total
}

// ---- verbatim transport of conditions and contents -------------------------------------------

const CONDITIONS: &[&str] = &["plain", "with \"double\" quotes", "back\\slash \\n \\u0041", "tab\there", "é ≤ 😀", "line1\nline2", "{\"json\": [1, 2]}", "  padded  "];
const CONTENTS: &[&str] = &["v1 = 1", "  v1 = \"é ≤\"  ", "\n\nv1\n\n  v2\t\n\n", "'single' \"double\" \\back \\\" \u{8}", "", "line1\r\nline2 v3", "{\"a\": \"\\u00e9\"}"];
const PATTERNS: &[Option<&str>] = &[None, Some(r"(?P<value>v\d+)"), Some(r"v\d+"), Some(r"nomatch\d"), Some(r"(?P<value>\s+v\d)"), Some(r"\S+\s*$")];

#[derive(Clone, Debug, PartialEq, Eq, Hash)]
struct Verbatim {
    condition: usize,
    content: usize,
    pattern: usize,
    /// 0 as is; 1 the block also carries a `check-lua-pattern` attribute (the other content-taking
    /// validator's pattern; without `check-lua` it selects nothing and must not leak into the AI
    /// request); 2 the run is in diff mode with a path argument that matches no file.
    variant: u8,
}

fn check_verbatim(c: &Verbatim, sink: &Sink) {
    let nonce = format!("v{}", NONCE.fetch_add(1, Ordering::Relaxed));
    let condition_text = CONDITIONS[c.condition];
    // The selector rides in front of the condition text.
    let condition = format!("case={nonce}-k0;reply=not-valid; {condition_text}");
    let body = CONTENTS[c.content];
    let pattern = PATTERNS[c.pattern];
    // A JS block comment can hold a newline inside an attribute value; values with `"` are
    // written in single quotes.
    let q = if condition.contains('"') { '\'' } else { '"' };
    let mut pattern_attr = pattern.map(|p| format!(" check-ai-pattern=\"{p}\"")).unwrap_or_default();
    if c.variant == 1 {
        pattern_attr.push_str(" check-lua-pattern=\"(?P<value>\\d)\"");
    }
    let text = format!("/* <block id=\"k0\" check-ai={q}{condition}{q}{pattern_attr}> */\n{body}\n/* </block> */\n");
    let raw_content = format!("\n{body}\n");
    let expected_content = match pattern {
        None => raw_content.trim().to_string(),
        Some(p) => Regex::new(p).unwrap().captures(&raw_content).and_then(|caps| caps.name("value").or_else(|| caps.get(0)).map(|m| m.as_str().to_string())).unwrap_or_default(),
    };
    let input = json!({"condition": c.condition, "content": c.content, "pattern": c.pattern, "variant": c.variant});
    sink.exec();
    let (diff, globs) = if c.variant == 2 { (Some(crate::cli::new_file_diff("x.js", &text)), vec!["nomatch/**".to_string()]) } else { (None, vec![]) };
    let outcome = librun::run(&Input { files: vec![("x.js".into(), text.clone())], diff, globs, ..Default::default() });
    let requests = FakeAi::global().take(&format!("{nonce}-k0"));
    let describe = |extra: &str| format!("condition {condition_text:?}, content {body:?}, pattern {pattern:?}: {extra}\n--- x.js ---\n{text}");
    sink.outcome(format!("verbatim:{}", outcome.class()));
    let [r] = requests.as_slice() else {
        sink.fail("C19:verbatim:request-count", describe(&format!("{} requests; outcome {}", requests.len(), outcome.to_json())), input);
        return;
    };
    let want_user = format!("CONDITION:\n{condition}\n\nBLOCK (formatting preserved):\n{expected_content}");
    if r.user.as_deref() != Some(want_user.as_str()) {
        sink.fail(format!("C19:verbatim:request-differs:pattern={}", c.pattern), describe(&format!("user message {:?}, expected {:?}", r.user, want_user)), input.clone());
    }
    if r.authorization.as_deref() != Some(&format!("Bearer {KEY}")) || r.model.as_deref() != Some(MODEL) || r.path != "/v1/chat/completions" {
        sink.fail("C19:verbatim:wrong-endpoint-key-or-model", describe(&format!("{r:?}")), input.clone());
    }
    match &outcome {
        Outcome::Report { diags, .. } if diags.len() == 1 && diags[0].data.get("condition").and_then(Value::as_str) == Some(condition.trim()) => {}
        other => sink.fail("C19:verbatim:unexpected-outcome", describe(&format!("{}", other.to_json())), input.clone()),
    }
    sink.nontrivial();
    if c.condition == 1 {
        sink.sample(|| json!({"file": text, "expected_user_message": want_user}));
    }
}

// ---- larger block sets under three delivery orders (capped) -------------------------------------

fn check_large(k: usize, fault_at: Option<usize>, sink: &Sink) -> u64 {
    let all = behaviours();
    let index = |name: &str| all.iter().position(|b| *b == name).unwrap();
    let mut n = 0;
    let blocks: Vec<(usize, usize)> = (0..k).map(|i| (if Some(i) == fault_at { index("h401-json") } else if i % 2 == 0 { index("ok-upper") } else { index("not-valid") }, i % 2)).collect();
    for (name, answers) in [("identity", vec![]), ("reverse", (0..k).rev().collect::<Vec<_>>()), ("rotation", vec![1; k.saturating_sub(1)])] {
        let nonce = format!("L{}", NONCE.fetch_add(1, Ordering::Relaxed));
        let (files, plans) = build(&blocks, &nonce);
        let mut choices = std::collections::HashMap::new();
        choices.insert("joinset@check_ai#1".to_string(), answers);
        let order: Vec<String> = files.iter().map(|f| f.0.clone()).collect();
        sink.exec();
        n += 1;
        let (outcome, _, diverged) = librun::run_traced(&Input { files, choices, map_order: Some(order), ..Default::default() });
        if diverged.is_some() && name != "identity" {
            continue;
        }
        sink.outcome(format!("large:k={k}:{name}:{}", outcome.class()));
        judge(&plans, &outcome, &nonce, &format!("{name} delivery order"), &json!({"large": k, "fault_at": fault_at}), sink);
    }
    n
}

// ---- whole-run faults: no key, connection refused -----------------------------------------------

fn whole_run_faults(sink: &Sink) -> u64 {
    let mut n = 0;
    let all = behaviours();
    let ok = all.iter().position(|b| *b == "ok-upper").unwrap();
    let bad = all.iter().position(|b| *b == "not-valid").unwrap();
    for (what, url, key) in [("no-key", FakeAi::global().url.clone(), None), ("empty-key", FakeAi::global().url.clone(), Some("")), ("connection-refused", FakeAi::refused_url(), Some(KEY))] {
        set_env(&url, key);
        for blocks in [vec![(ok, 0)], vec![(ok, 0), (bad, 1)], vec![(ok, 0), (ok, 0), (ok, 1)]] {
            let nonce = format!("w{}", NONCE.fetch_add(1, Ordering::Relaxed));
            let (files, plans) = build(&blocks, &nonce);
            let input_json = json!({"whole_run_fault": what, "blocks": blocks.len()});
            let order: Vec<String> = files.iter().map(|f| f.0.clone()).collect();
            let stats = e2::explore(&Input { files, map_order: Some(order), ..Default::default() }, None, 500, |outcome, _| {
                n += 1;
                sink.exec();
                sink.outcome(format!("{what}:{}", outcome.class()));
                if !matches!(outcome, Outcome::Error { .. }) {
                    sink.fail(format!("C19:fault-masked:{what}"), format!("{what} with {} blocks: {}", plans.len(), outcome.to_json()), input_json.clone());
                }
                let sent: usize = plans.iter().map(|p| FakeAi::global().take(&format!("{nonce}-{}", p.id)).len()).sum();
                if what != "connection-refused" && sent != 0 {
                    sink.fail(format!("C19:request-sent-without-key:{what}"), format!("{sent} requests were sent"), input_json.clone());
                }
            });
            if stats.divergence.is_some() {
                sink.machinery(format!("C19 {what}: replay divergence"));
            }
        }
    }
    set_env(&FakeAi::global().url, Some(KEY));
    n
}

pub fn run(cfg: &Cfg, sink: &Arc<Sink>) -> Report {
    set_env(&FakeAi::global().url, Some(KEY));
    let mut report = Report::new("states = block sets: per block a reply ∈ {OK, ok, oK, OK., ok., OKAY, a sentence, OK!, ' OK', 'OK. But fix it'} or an endpoint fault ∈ {400/401/404 with JSON or plain body, 200 invalid JSON, 200 no choices, 200 null content, connection closed mid-body, empty body} and a file ∈ {a.py, sub/b.py}; for every state every delivery order of the check-ai JoinSet and every order of the runner's thread bodies is executed (E2) against a recording endpoint whose behaviour is selected by the request's own condition text; oracle: without a fault exactly one faithful request per block (POST /v1/chat/completions, bearer key, model, user message = condition + content verbatim), OK-class reply ⇒ no diagnostic, any other reply ⇒ exactly one check-ai diagnostic quoting it on the start tag; with a fault on any block the run fails in every schedule and no block is asked twice; plus verbatim transport of 8 conditions × 7 contents × 4 patterns, and the whole-run faults {no key, empty key, connection refused}; non-trivial = every non-empty block set");
    report.assume("async-openai / reqwest are trusted to put the JSON they are given on the wire; 5xx and 429 (retried by the client library) are outside the property's fault set");
    let n = behaviours().len() as u8;
    let max_k = cfg.tier.pick(2, 3);
    let schedules = Arc::new(AtomicU64::new(0));
    let s2 = Arc::clone(&schedules);
    report.phase(engine::explore(
        "block sets × all delivery orders",
        &format!("all sequences of ≤{max_k} blocks over {n} behaviours × 2 files, every schedule of the seams"),
        Sequences {
            alphabet: n * 2,
            max_len: max_k,
            check: move |seq: &[u8], sink: &Sink| {
                if seq.len() == 3 && seq[2] % 2 == 1 {
                    return; // third block always in the first file
                }
                let blocks: Vec<(usize, usize)> = seq.iter().map(|&s| ((s / 2) as usize, (s % 2) as usize)).collect();
                s2.fetch_add(check_blocks(&blocks, sink), Ordering::Relaxed);
            },
        },
        sink,
        cfg.threads,
        false,
    ));
    report.extra.insert("schedules_executed".into(), json!(schedules.load(Ordering::Relaxed)));
    let mut cases = Vec::new();
    for condition in 0..CONDITIONS.len() {
        for content in 0..CONTENTS.len() {
            for pattern in 0..PATTERNS.len() {
                for variant in 0..3u8 {
                    cases.push(Verbatim { condition, content, pattern, variant });
                }
            }
        }
    }
    let total = cases.len();
    report.phase(engine::explore("verbatim transport", &format!("{total} cases (full product of condition × content × pattern × {{as is, with a check-lua-pattern attribute on the block, diff mode with a non-matching path argument}})"), Grid { cases, check: |c: &Verbatim, s: &Sink| check_verbatim(c, s) }, sink, cfg.threads, false));
    let mut n = 0;
    for k in [5usize, 8, 16] {
        for fault_at in [None, Some(0), Some(k / 2), Some(k - 1)] {
            n += check_large(k, fault_at, sink);
        }
    }
    report.phase(Phase { name: "larger block sets (capped)".into(), states: n, transitions: n, max_depth: 1, exhaustive: false, bound: "k ∈ {5,8,16} × fault on {none, first, middle, last} × delivery order ∈ {identity, reverse, rotation}".into() });
    report.cap("k ∈ {5,8,16}: only 3 delivery orders each");
    let n = whole_run_faults(sink);
    report.phase(Phase { name: "whole-run faults".into(), states: n, transitions: n, max_depth: 1, exhaustive: true, bound: "{no key, empty key, connection refused} × 3 block sets × all schedules".into() });
    report
}

pub fn replay(_cfg: &Cfg, input: &Value, sink: &Arc<Sink>) {
    set_env(&FakeAi::global().url, Some(KEY));
    if let Some(k) = input.get("large").and_then(Value::as_u64) {
        check_large(k as usize, input["fault_at"].as_u64().map(|v| v as usize), sink);
    } else if input.get("whole_run_fault").is_some() {
        whole_run_faults(sink);
    } else if let Some(c) = input.get("condition").and_then(Value::as_u64) {
        check_verbatim(&Verbatim { condition: c as usize, content: input["content"].as_u64().unwrap_or(0) as usize, pattern: input["pattern"].as_u64().unwrap_or(0) as usize, variant: input["variant"].as_u64().unwrap_or(0) as u8 }, sink);
    } else {
        let blocks: Vec<(usize, usize)> = input["blocks"].as_array().map(|a| a.iter().filter_map(|v| Some((v[0].as_u64()? as usize, v[1].as_u64()? as usize))).collect()).unwrap_or_default();
        check_blocks(&blocks, sink);
    }
}
