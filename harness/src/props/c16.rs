//! C16: the grammar is chosen by file name; unknown names are skipped silently; `-E` remaps.

use crate::cli::{self, Scratch};
use crate::core::{Cfg, Report, Sink};
use crate::engine::{self, Grid};
use crate::librun::{self, Input, Outcome};
use crate::props::c03;
use crate::props::langkit::{Kit, Layout, Seg, Tags, KITS};
use crate::props::rules::first_line;
use serde_json::{Value, json};
use std::sync::Arc;

/// The 39 registered suffixes (README "Supported Languages" / the extension table).
pub const REGISTERED: &[&str] = &[
    "Makefile", "bash", "c", "cc", "cpp", "cs", "css", "d.ts", "go", "go.mod", "go.sum", "go.work", "h", "htm", "html", "java", "js", "jsx", "kt", "kts",
    "makefile", "markdown", "md", "mk", "php", "phtml", "py", "pyi", "rb", "rs", "sh", "sql", "swift", "toml", "ts", "tsx", "xml", "yaml", "yml",
];

/// The suffix of a kit file name (`x.rs` → `rs`, `go.mod` → `go.mod`, `Makefile` → `Makefile`).
fn suffix_of(file: &str) -> &str {
    file.strip_prefix("x.").unwrap_or(file)
}

/// Reference lookup, from the property text: the registered suffix that the base name ends with
/// after a dot (the shortest such suffix first), else the whole base name.
fn reference_suffix<'a>(base: &'a str, extra: &[(String, String)]) -> Option<String> {
    let lookup = |s: &str| -> Option<String> {
        if let Some((_, to)) = extra.iter().find(|(from, _)| from == s) {
            return REGISTERED.contains(&to.as_str()).then(|| to.clone());
        }
        REGISTERED.contains(&s).then(|| s.to_string())
    };
    let dots: Vec<usize> = base.match_indices('.').map(|(i, _)| i).collect();
    for &i in dots.iter().rev() {
        if let Some(s) = lookup(&base[i + 1..]) {
            return Some(s);
        }
    }
    lookup(base)
}

fn kit_for_suffix(suffix: &str) -> Option<(&'static Kit, &'static str)> {
    for kit in KITS {
        for f in kit.files {
            if suffix_of(f) == suffix {
                return Some((kit, f));
            }
        }
    }
    None
}

fn probe_segs(kit: &Kit) -> Vec<Seg> {
    let mut v = vec![Seg::Comment { form: 0, layout: Layout::Bare, tags: Tags::Open }, Seg::Code(0)];
    if !kit.decoys.is_empty() {
        v.push(Seg::Decoy(0));
    }
    v.push(Seg::Comment { form: (kit.forms.len() - 1) as u8, layout: Layout::Bare, tags: Tags::Pair });
    v.push(Seg::Comment { form: 0, layout: Layout::Noisy, tags: Tags::Close });
    v
}

#[derive(Clone, Debug, PartialEq, Eq, Hash)]
struct Case {
    suffix: &'static str,
    shape: &'static str,
    mapping: &'static str,
    content: &'static str,
    mode: &'static str,
}

const SHAPES: &[&str] = &["x.S", "x.y.S", ".x.S", "d.ir/x.S", "sub/dir/My File.S", "X.UPPER(S)", "x.S.bak", "xS", "x.S~", "x.S.S", "S/x.txt"];
// `Whole=S`: the key is a whole file name without any dot (`-E Buildfile=S`).
const MAPPINGS: &[&str] = &["none", "new=S", "other=S", "S=S", "S=different", "Whole=S"];
const CONTENTS: &[&str] = &["probe", "unbalanced", "garbage"];

fn name_for(shape: &str, suffix: &str) -> String {
    match shape {
        "X.UPPER(S)" => format!("X.{}", suffix.to_uppercase()),
        _ => shape.replace('S', suffix),
    }
}

/// A registered suffix of another grammar whose comments the grammar of `suffix` does not see.
fn different_suffix(suffix: &str) -> &'static str {
    let hash_family = kit_for_suffix(suffix).is_some_and(|(k, _)| k.forms.iter().any(|f| f.open == "#"));
    if hash_family { "js" } else { "py" }
}

fn check_case(case: &Case, sink: &Sink) {
    // `S=different`: the registered suffix itself is remapped to another registered grammar; the
    // file then has to be read with that grammar, so the probe is the other grammar's.
    let probe_suffix = if case.mapping == "S=different" { different_suffix(case.suffix) } else { case.suffix };
    let Some((kit, _)) = kit_for_suffix(probe_suffix) else {
        sink.machinery(format!("no kit for suffix {}", case.suffix));
        return;
    };
    let input = json!({"suffix": case.suffix, "shape": case.shape, "mapping": case.mapping, "content": case.content, "mode": case.mode});
    let mut name = name_for(case.shape, case.suffix);
    let mut extra: Vec<(String, String)> = Vec::new();
    match case.mapping {
        "new=S" => {
            // The file carries the new extension instead of the registered one.
            extra.push(("new".into(), case.suffix.into()));
            if case.shape == "x.S" || case.shape == "x.y.S" || case.shape == "d.ir/x.S" {
                name = name_for(case.shape, "new");
            }
        }
        "Whole=S" => {
            // The file is called `Buildfile` (in the shape's directory), with no dot at all.
            extra.push(("Buildfile".into(), case.suffix.into()));
            if case.shape == "x.S" || case.shape == "d.ir/x.S" || case.shape == "sub/dir/My File.S" {
                name = match name.rsplit_once('/') {
                    Some((dir, _)) => format!("{dir}/Buildfile"),
                    None => "Buildfile".to_string(),
                };
            }
        }
        "other=S" => extra.push(("other".into(), case.suffix.into())),
        "S=S" => extra.push((case.suffix.into(), case.suffix.into())),
        "S=different" => extra.push((case.suffix.into(), probe_suffix.into())),
        _ => {}
    }
    let base = name.rsplit('/').next().unwrap().to_string();
    let expected_suffix = reference_suffix(&base, &extra);
    // Don't care: a base name that *is* a registered suffix without any dot (a file called `py`),
    // except for the documented extension-less Makefile/makefile.
    let rendered = c03::render(kit, &probe_segs(kit), false);
    let text = match case.content {
        "probe" => rendered.text.clone(),
        "unbalanced" => {
            // Remove the last end tag (the one closing the outer block).
            let at = rendered.text.rfind("</block>").expect("probe has an end tag");
            format!("{}{}", &rendered.text[..at], &rendered.text[at + 8..])
        }
        _ => "\u{feff}<block <block>> </block </block> \"'`/*<!--[//]: #(\n".to_string(),
    };
    let hidden = base.starts_with('.');
    let (files, unwalked) = if hidden { (vec![], vec![(name.clone(), text.clone())]) } else { (vec![(name.clone(), text.clone())], vec![]) };
    let diff = (case.mode != "scan" || hidden).then(|| cli::new_file_diff(&name, &text));
    sink.exec();
    let outcome = librun::run(&Input { files, unwalked, diff, extensions: extra.clone(), list_only: true, globs: if case.mode == "diff+glob" { vec!["**".into()] } else { vec![] }, ..Default::default() });
    let maps_to_native = expected_suffix.as_deref().and_then(kit_for_suffix).map(|(k, _)| std::ptr::eq(k, kit));
    match (&outcome, maps_to_native) {
        (Outcome::Panic { message }, _) => {
            sink.outcome("panic");
            sink.fail(format!("C16:panic:{}", first_line(message)), format!("{name}: panic {message}"), input.clone());
        }
        (Outcome::Report { blocks, .. }, None) => {
            sink.outcome("unknown-name:skipped");
            if !blocks.is_empty() {
                sink.fail(format!("C16:unknown-name-parsed:{}", case.shape), format!("{name} maps to no grammar but {} blocks were found", blocks.len()), input.clone());
            }
        }
        (Outcome::Error { message, .. }, None) => {
            sink.outcome("unknown-name:error");
            sink.fail(format!("C16:unknown-name-raises-error:{}", case.shape), format!("{name} maps to no grammar but the run failed: {}", first_line(message)), input.clone());
        }
        (_, Some(false)) => {
            // The name maps to another registered grammar than the probe's (e.g. `x.h.bak`…): the
            // probe content is not written for it; nothing to compare.
            sink.outcome("other-grammar");
        }
        (Outcome::Report { blocks, .. }, Some(true)) => {
            if case.content == "probe" {
                let problems = c03::compare(&rendered, blocks, false);
                sink.outcome(if problems.is_empty() { "native:agree" } else { "native:differ" });
                for (kind, msg) in problems {
                    sink.fail(format!("C16:{kind}:{}:{}", case.shape, case.mapping), format!("{name} should be parsed as {:?} like x.{}: {msg}", expected_suffix, probe_suffix), input.clone());
                }
            } else if case.content == "unbalanced" {
                sink.outcome("native:unbalanced-accepted");
                sink.fail(format!("C16:unbalanced-accepted:{}", case.shape), format!("{name} is parsed as {:?} and its tags do not balance, yet the run succeeded", expected_suffix), input.clone());
            } else {
                sink.outcome("native:garbage-report");
            }
        }
        (Outcome::Error { message, .. }, Some(true)) => {
            if case.content == "probe" {
                sink.outcome("native:error");
                sink.fail(format!("C16:native-probe-error:{}:{}", case.shape, case.mapping), format!("{name}: {}", first_line(message)), input.clone());
            } else {
                sink.outcome("native:error-on-bad-content");
            }
        }
    }
    sink.nontrivial();
    sink.sample(|| json!({"file": name, "expected_grammar_suffix": expected_suffix, "input": input}));
}

/// One file of the pair space: a name, the content written for the grammar the name *looks* like,
/// and the grammar suffix the reference lookup assigns (None: skipped silently).
struct PairName {
    name: String,
    text: String,
    rendered: Option<crate::props::langkit::Rendered>,
}

/// Names of the pair space: per registered suffix S the plain `a/x.S`, a second stem `b/lib.S`,
/// and the look-alikes that share S's last dot component (`b/song.mod` for `go.mod`), its
/// spelling without a dot (`b/xS`) and `b/x.S.bak`. The look-alikes carry the probe of S's own
/// grammar, so reading them with that grammar shows as blocks.
fn pair_names() -> &'static Vec<PairName> {
    static NAMES: std::sync::OnceLock<Vec<PairName>> = std::sync::OnceLock::new();
    NAMES.get_or_init(|| {
        let mut v = Vec::new();
        for suffix in REGISTERED {
            let (kit, _) = kit_for_suffix(suffix).expect("kit");
            let probe = c03::render(kit, &probe_segs(kit), false);
            let last = suffix.rsplit('.').next().unwrap();
            let mut names = vec![name_for("a/x.S", suffix), name_for("b/lib.S", suffix), name_for("b/x.S.bak", suffix), format!("b/x{suffix}")];
            if last != *suffix {
                names.push(format!("b/song.{last}"));
                names.push(format!("b/{last}"));
            }
            for name in names {
                let base = name.rsplit('/').next().unwrap();
                let expected = reference_suffix(base, &[]);
                match expected.as_deref().and_then(kit_for_suffix) {
                    // The name maps to S's grammar: the probe's blocks are expected.
                    Some((k, _)) if std::ptr::eq(k, kit) => v.push(PairName { name, text: probe.text.clone(), rendered: Some(probe.clone()) }),
                    // It maps to another grammar (`song.ts` for `d.ts` is TypeScript as well; `b/ts`…):
                    // write that grammar's probe.
                    Some((k, _)) => {
                        let other = c03::render(k, &probe_segs(k), false);
                        v.push(PairName { name, text: other.text.clone(), rendered: Some(other) });
                    }
                    None => v.push(PairName { name, text: probe.text.clone(), rendered: None }),
                }
            }
        }
        v
    })
}

#[derive(Clone, Debug, PartialEq, Eq, Hash)]
struct PairCase {
    first: usize,
    second: usize,
    /// The second file is hidden from the walk and named by the diff only.
    second_from_diff: bool,
    /// The diff shows the second file as renamed from the first name (which no longer exists)
    /// and edited in its first content line; `**` as path argument.
    renamed: bool,
}

fn check_pair(case: &PairCase, sink: &Sink) {
    let names = pair_names();
    let (a, b) = (&names[case.first], &names[case.second]);
    if a.name == b.name {
        return;
    }
    let input = json!({"pair": [a.name, b.name], "second_from_diff": case.second_from_diff, "renamed": case.renamed});
    if case.renamed {
        check_rename(a, b, &input, sink);
        return;
    }
    let mut files = vec![(a.name.clone(), a.text.clone())];
    let mut unwalked = Vec::new();
    let mut diff = None;
    if case.second_from_diff {
        unwalked.push((b.name.clone(), b.text.clone()));
        diff = Some(cli::new_file_diff(&b.name, &b.text));
    } else {
        files.push((b.name.clone(), b.text.clone()));
    }
    sink.exec();
    let outcome = librun::run(&Input { files, unwalked, diff, list_only: true, globs: if case.second_from_diff { vec!["**".into()] } else { vec![] }, ..Default::default() });
    match &outcome {
        Outcome::Panic { message } => sink.fail(format!("C16:pair:panic:{}", first_line(message)), format!("{} + {}: panic {message}", a.name, b.name), input.clone()),
        Outcome::Error { message, .. } => {
            sink.outcome("pair:error");
            sink.fail("C16:pair:error", format!("{} + {} in one run: {}", a.name, b.name, first_line(message)), input.clone());
        }
        Outcome::Report { blocks, .. } => {
            let mut agree = true;
            for (which, f) in [("first", a), ("second", b)] {
                let found: Vec<_> = blocks.iter().filter(|bl| bl.file.to_string_lossy() == f.name).cloned().collect();
                match &f.rendered {
                    None if !found.is_empty() => {
                        agree = false;
                        sink.fail(format!("C16:pair:unknown-name-parsed:{which}"), format!("{} maps to no grammar, but next to {} in one run {} blocks were found in it", f.name, if which == "first" { &b.name } else { &a.name }, found.len()), input.clone());
                    }
                    None => {}
                    Some(r) => {
                        for (kind, msg) in c03::compare(r, &found, false) {
                            agree = false;
                            sink.fail(format!("C16:pair:{kind}:{which}"), format!("{} next to {} in one run: {msg}", f.name, if which == "first" { &b.name } else { &a.name }), input.clone());
                        }
                    }
                }
            }
            sink.outcome(if agree { "pair:agree" } else { "pair:differ" });
        }
    }
    sink.nontrivial();
}

/// `old` was renamed to `new` and one content line of the first block was edited: the diff's
/// section reads `--- a/<old>` / `+++ b/<new>`. Whatever grammar the old name would select, only
/// the new file exists and is read, with the grammar of its own name, and its first block is
/// content-modified.
fn check_rename(old: &PairName, new: &PairName, input: &Value, sink: &Sink) {
    let Some(rendered) = &new.rendered else { return };
    let Some(first) = rendered.blocks.iter().find(|b| !b.same_comment && b.content_end > b.content_start) else { return };
    // The first line that lies entirely inside the first block's content.
    let line_start = match rendered.text[first.content_start..first.content_end].find('\n') {
        Some(i) => first.content_start + i + 1,
        None => return,
    };
    if line_start >= first.content_end {
        return;
    }
    let line_end = rendered.text[line_start..].find('\n').map(|i| line_start + i).unwrap_or(rendered.text.len());
    if line_end > first.content_end || line_end == line_start {
        return;
    }
    let line_no = rendered.text[..line_start].matches('\n').count() + 1;
    let line = &rendered.text[line_start..line_end];
    let diff = format!(
        "diff --git a/{o} b/{n}\nsimilarity index 90%\nrename from {o}\nrename to {n}\nindex 1111111..2222222 100644\n--- a/{o}\n+++ b/{n}\n@@ -{line_no} +{line_no} @@\n-previous text of the line\n+{line}\n",
        o = old.name,
        n = new.name
    );
    sink.exec();
    let outcome = librun::run(&Input { files: vec![(new.name.clone(), new.text.clone())], diff: Some(diff), list_only: true, globs: vec!["**".into()], ..Default::default() });
    match &outcome {
        Outcome::Panic { message } => sink.fail(format!("C16:rename:panic:{}", first_line(message)), format!("{} renamed to {}: panic {message}", old.name, new.name), input.clone()),
        Outcome::Error { message, .. } => {
            sink.outcome("rename:error");
            sink.fail("C16:rename:error", format!("{} renamed to {} (only the latter exists): {}", old.name, new.name, first_line(message)), input.clone());
        }
        Outcome::Report { blocks, .. } => {
            let found: Vec<_> = blocks.iter().filter(|bl| bl.file.to_string_lossy() == new.name).cloned().collect();
            let mut ok = true;
            for (kind, msg) in c03::compare(rendered, &found, false) {
                ok = false;
                sink.fail(format!("C16:rename:{kind}"), format!("{} renamed to {}: {msg}", old.name, new.name), input.clone());
            }
            if blocks.len() != found.len() {
                ok = false;
                sink.fail("C16:rename:old-name-read", format!("{} renamed to {}: blocks listed for other files: {:?}", old.name, new.name, blocks.iter().map(|b| b.file.display().to_string()).collect::<Vec<_>>()), input.clone());
            }
            let position = rendered.position(first.lt);
            if ok && !found.iter().any(|bl| bl.start_tag_start == position && bl.is_content_modified) {
                ok = false;
                sink.fail("C16:rename:modification-lost", format!("{} renamed to {} with line {line_no} edited: the block at {position:?} is not marked content-modified", old.name, new.name), input.clone());
            }
            sink.outcome(if ok { "rename:agree" } else { "rename:differ" });
        }
    }
    sink.nontrivial();
}

/// CLI slice: `-E` validation and parsing through the real flag parser, hidden files via a diff.
fn cli_slice(cfg: &Cfg, sink: &Sink) -> u64 {
    let mut n = 0;
    let repo = Scratch::repo("c16");
    let kit = KITS.iter().find(|k| k.grammar == "rust").unwrap();
    let rendered = c03::render(kit, &probe_segs(kit), false);
    repo.write("x.new", &rendered.text);
    repo.write("y.rs", &rendered.text);
    repo.write("z.unknown", "// <block> never closed\n");
    repo.write("w.New", &rendered.text);
    for (args, ok, what) in [
        (vec!["list", "-E", "new=rs"], true, "new=rs"),
        (vec!["-E", "new=rs", "list"], true, "new=rs before subcommand"),
        (vec!["list", "-E", "new=rs", "-E", "unknown=py"], true, "two mappings"),
        (vec!["list", "-E", "new=rs", "-E", "New=rs"], true, "upper-case key"),
        (vec!["list", "-E", "new=nosuch"], false, "unregistered target"),
        (vec!["list", "-E", "new=rs", "-E", "x=RS"], false, "unregistered (case) target"),
        (vec!["list", "-E", "new"], false, "no equals sign"),
        (vec!["-E", "new=nosuch"], false, "unregistered target in check mode"),
    ] {
        n += 1;
        sink.exec();
        let run = cli::blockwatch(&cfg.bin, &repo.dir, &args, None, &[], 20);
        let input = json!({"cli": args});
        if run.panicked() || run.timed_out {
            sink.fail("C16:cli:crash", format!("{what}: {}", run.summary()), input.clone());
            continue;
        }
        if ok {
            let listed: Value = serde_json::from_str(&run.stdout).unwrap_or(Value::Null);
            let has_new = listed.get("x.new").and_then(Value::as_array).map(|a| a.len()) == Some(rendered.blocks.len());
            let has_rs = listed.get("y.rs").and_then(Value::as_array).map(|a| a.len()) == Some(rendered.blocks.len());
            // `unknown=py` maps z.unknown to Python, where `// …` is not a comment: still no blocks.
            // Keys are matched as written: `w.New` is read only under a mapping with that very key.
            let has_upper = listed.get("w.New").and_then(Value::as_array).map(|a| a.len()) == Some(rendered.blocks.len());
            let upper_ok = if what == "upper-case key" { has_upper } else { listed.get("w.New").is_none() };
            if run.code != Some(0) || !has_new || !has_rs || !upper_ok || listed.get("z.unknown").is_some() {
                sink.fail(format!("C16:cli:mapping-not-applied:{what}"), format!("{what}: {}", run.summary()), input.clone());
            }
            sink.outcome("cli:mapping-applied");
        } else {
            if run.code == Some(0) || run.code.is_none() || !run.stdout.trim().is_empty() {
                sink.fail(format!("C16:cli:bad-mapping-accepted:{what}"), format!("{what}: {}", run.summary()), input.clone());
            }
            sink.outcome("cli:mapping-rejected");
        }
    }
    // Rejection happens before any file is read: an unreadable / unbalanced file in scope must not
    // change the message.
    repo.write("bad.rs", "// <block>\n");
    let a = cli::blockwatch(&cfg.bin, &repo.dir, &["list", "-E", "new=nosuch"], None, &[], 20);
    n += 1;
    sink.exec();
    if a.code == Some(0) || a.stderr.contains("bad.rs") || !a.stderr.contains("nosuch") {
        sink.fail("C16:cli:rejection-after-reading-files", format!("{}", a.summary()), json!({"cli": "list -E new=nosuch with an unbalanced file in scope"}));
    }
    n
}

pub fn run(cfg: &Cfg, sink: &Arc<Sink>) -> Report {
    let mut report = Report::new("cases = 39 registered suffixes × 11 file-name shapes × 6 `-E` mappings (none, new extension, unused, identity, registered suffix remapped to another grammar, a whole file name without a dot) × {native probe file of the grammar's kit, the probe with one end tag removed, garbage} × {scan, diff, diff+glob}; when the reference lookup maps the name to the suffix's grammar the found blocks must equal the construction, when it maps to no grammar nothing may be found or raised; plus a CLI slice for `-E` parsing/validation; non-trivial = every case");
    report.assume("reference lookup: the shortest registered dot-suffix of the base name wins, else the whole base name; `-E from=to` substitutes `from`");
    // The hard-coded table must equal the implementation's registered suffixes.
    let mut registered: Vec<String> = REGISTERED.iter().map(|s| s.to_string()).collect();
    registered.sort();
    if registered != librun::supported_suffixes() {
        sink.fail("C16:suffix-table-changed", format!("registered suffixes are {:?}", librun::supported_suffixes()), json!({"table": "suffixes"}));
    }
    let mut cases = Vec::new();
    for suffix in REGISTERED {
        for shape in SHAPES {
            for mapping in MAPPINGS {
                for content in CONTENTS {
                    for mode in ["scan", "diff", "diff+glob"] {
                        cases.push(Case { suffix, shape, mapping, content, mode });
                    }
                }
            }
        }
    }
    let n = cases.len();
    report.phase(engine::explore("name shapes", &format!("{n} cases (full product)"), Grid { cases, check: |c: &Case, s: &Sink| check_case(c, s) }, sink, cfg.threads, false));
    let k = pair_names().len();
    let mut pairs = Vec::new();
    for first in 0..k {
        for second in 0..k {
            for second_from_diff in [false, true] {
                pairs.push(PairCase { first, second, second_from_diff, renamed: false });
            }
            pairs.push(PairCase { first, second, second_from_diff: false, renamed: true });
        }
    }
    let n = pairs.len();
    report.phase(engine::explore("ordered pairs of names in one run", &format!("{n} cases: every ordered pair of {k} names (per registered suffix: two stems, `.bak`, dot-less, and for compound suffixes the look-alikes sharing the last component) × {{both walked, second named by the diff only, second renamed from the first name and edited}}; each file must be read exactly as it is read alone"), Grid { cases: pairs, check: |c: &PairCase, s: &Sink| check_pair(c, s) }, sink, cfg.threads, false));
    let n = cli_slice(cfg, sink);
    report.phase(crate::core::Phase { name: "CLI slice (-E parsing and validation)".into(), states: n, transitions: n, max_depth: 1, exhaustive: true, bound: "fixed list of flag spellings".into() });
    report
}

pub fn replay(cfg: &Cfg, input: &Value, sink: &Arc<Sink>) {
    if input.get("cli").is_some() || input.get("table").is_some() {
        cli_slice(cfg, sink);
        return;
    }
    if let Some(pair) = input.get("pair").and_then(Value::as_array) {
        let names = pair_names();
        let idx = |v: &Value| names.iter().position(|n| Some(n.name.as_str()) == v.as_str());
        match (idx(&pair[0]), idx(&pair[1])) {
            (Some(first), Some(second)) => check_pair(&PairCase { first, second, second_from_diff: input["second_from_diff"].as_bool() == Some(true), renamed: input["renamed"].as_bool() == Some(true) }, sink),
            _ => sink.machinery("replay: unknown pair"),
        }
        return;
    }
    let find = |list: &[&'static str], key: &str| list.iter().copied().find(|s| Some(*s) == input[key].as_str());
    let (Some(suffix), Some(shape), Some(mapping), Some(content)) = (find(REGISTERED, "suffix"), find(SHAPES, "shape"), find(MAPPINGS, "mapping"), find(CONTENTS, "content")) else {
        sink.machinery("replay: unreadable case");
        return;
    };
    let mode = find(&["scan", "diff", "diff+glob"], "mode").unwrap_or("scan");
    check_case(&Case { suffix, shape, mapping, content, mode }, sink);
}
