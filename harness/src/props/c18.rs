//! C18: check-lua — one call per block, faithful arguments, errors fail the run, in every
//! completion order. E1 over block sets (behaviour × file per block) × E2 over every schedule the
//! seams expose (JoinSet delivery order, thread-body order) × block-map orders.

use crate::cli::{self, Scratch};
use crate::core::{Cfg, Phase, Report, Sink, permutations};
use crate::e2;
use crate::engine::{self, Grid, Sequences};
use crate::librun::{Input, Outcome};
use crate::props::rules::first_line;
use regex::Regex;
use serde_json::{Value, json};
use std::collections::HashMap;
use std::sync::Arc;

pub const BEHAVIOURS: &[&str] = &["nil", "string", "syntax-error", "runtime-error", "no-validate", "returns-number", "returns-table", "returns-boolean", "stateful-nil"];
const FILES: &[&str] = &["a.py", "sub/b.py"];

fn ok_behaviour(b: usize) -> bool {
    b < 2 || BEHAVIOURS[b] == "stateful-nil"
}

const PRELUDE: &str = r#"
local function hex(s)
  return (s:gsub(".", function(c) return string.format("%02x", c:byte()) end))
end
local function log(ctx, content)
  local keys = {}
  for k in pairs(ctx.attrs) do keys[#keys + 1] = k end
  table.sort(keys)
  local parts = {}
  for _, k in ipairs(keys) do parts[#parts + 1] = k .. "=" .. ctx.attrs[k] end
  local f = io.open(LOG, "a")
  f:write((ctx.attrs.id or "?") .. " " .. hex(ctx.file) .. " " .. tostring(ctx.line) .. " " .. hex(table.concat(parts, "\31")) .. " x" .. hex(content) .. "\n")
  f:close()
end
"#;

/// Scripts and call log of one worker thread.
pub struct Kit {
    pub dir: Scratch,
}

impl Kit {
    pub fn new() -> Self {
        let dir = Scratch::new("c18");
        let log = dir.path("calls.log");
        let prelude = format!("local LOG = {:?}\n{PRELUDE}", log.display().to_string());
        let body = |b: &str| match b {
            "nil" => "function validate(ctx, content)\n  log(ctx, content)\n  return nil\nend\n".to_string(),
            "string" => "function validate(ctx, content)\n  log(ctx, content)\n  return \"msg<\" .. ctx.attrs.id .. \">\"\nend\n".to_string(),
            "syntax-error" => "function validate(ctx, content\n  return nil\n".to_string(),
            "runtime-error" => "function validate(ctx, content)\n  log(ctx, content)\n  error(\"boom \" .. ctx.attrs.id)\nend\n".to_string(),
            "no-validate" => "function other(ctx, content)\n  return nil\nend\n".to_string(),
            "returns-number" => "function validate(ctx, content)\n  log(ctx, content)\n  return 42\nend\n".to_string(),
            "returns-table" => "function validate(ctx, content)\n  log(ctx, content)\n  return {}\nend\n".to_string(),
            "returns-boolean" => "function validate(ctx, content)\n  log(ctx, content)\n  return true\nend\n".to_string(),
            // Keeps state outside validate(): every block gets a fresh interpreter, so the counter
            // is 1 on every call and the script passes; a reused interpreter makes it complain.
            "stateful-nil" => "local calls = 0\nfunction validate(ctx, content)\n  log(ctx, content)\n  calls = calls + 1\n  if calls > 1 or PREVIOUS ~= nil then\n    return \"interpreter state leaked between blocks\"\n  end\n  PREVIOUS = ctx.attrs.id\n  return nil\nend\n".to_string(),
            _ => unreachable!(),
        };
        for b in BEHAVIOURS {
            dir.write(&format!("{b}.lua"), &format!("{prelude}{}", body(b)));
        }
        Self { dir }
    }
    pub fn script(&self, behaviour: usize) -> String {
        self.dir.path(&format!("{}.lua", BEHAVIOURS[behaviour])).display().to_string()
    }
    pub fn reset_log(&self) {
        let _ = std::fs::write(self.dir.path("calls.log"), "");
    }
    /// (id, file, line, attrs, content) per recorded call.
    pub fn calls(&self) -> Vec<(String, String, usize, String, String)> {
        let unhex = |s: &str| -> String {
            let bytes: Vec<u8> = (0..s.len() / 2).filter_map(|i| u8::from_str_radix(&s[2 * i..2 * i + 2], 16).ok()).collect();
            String::from_utf8_lossy(&bytes).to_string()
        };
        std::fs::read_to_string(self.dir.path("calls.log"))
            .unwrap_or_default()
            .lines()
            .filter_map(|l| {
                let p: Vec<&str> = l.split(' ').collect();
                (p.len() == 5).then(|| (p[0].to_string(), unhex(p[1]), p[2].parse().unwrap_or(0), unhex(p[3]), unhex(&p[4][1..])))
            })
            .collect()
    }
}

thread_local! {
    static KIT: Kit = Kit::new();
}

struct BlockPlan {
    id: String,
    behaviour: usize,
    file: &'static str,
    tag_line: usize,
    attrs: String,
    content: String,
}

/// Builds the files for a block set: blocks are `(behaviour, file index)`.
fn build(kit: &Kit, blocks: &[(usize, usize)]) -> (Vec<(String, String)>, Vec<BlockPlan>) {
    let mut texts: Vec<String> = vec![String::new(); FILES.len()];
    let mut lines: Vec<usize> = vec![1; FILES.len()];
    let mut plans = Vec::new();
    for (i, (b, f)) in blocks.iter().enumerate() {
        let id = format!("k{i}");
        let script = kit.script(*b);
        let content_line = format!("value_{i} = \"é {i}\"");
        texts[*f].push_str(&format!("# <block id=\"{id}\" check-lua=\"{script}\">\n{content_line}\n# </block>\nfiller_{i} = 0\n"));
        plans.push(BlockPlan {
            id: id.clone(),
            behaviour: *b,
            file: FILES[*f],
            tag_line: lines[*f],
            attrs: format!("check-lua={script}\u{1f}id={id}"),
            content: content_line,
        });
        lines[*f] += 4;
    }
    let files = FILES.iter().zip(texts).filter(|(_, t)| !t.is_empty()).map(|(n, t)| (n.to_string(), t)).collect();
    (files, plans)
}

fn judge(plans: &[BlockPlan], outcome: &Outcome, calls: &[(String, String, usize, String, String)], schedule: &str, input: &Value, sink: &Sink) {
    let failing: Vec<&BlockPlan> = plans.iter().filter(|p| !ok_behaviour(p.behaviour)).collect();
    let describe = |extra: &str| format!("blocks {:?}, schedule [{schedule}]: {extra}", plans.iter().map(|p| format!("{}:{}@{}", p.id, BEHAVIOURS[p.behaviour], p.file)).collect::<Vec<_>>());
    // Calls: at most once each; exactly once, with faithful arguments, when nothing fails.
    for p in plans {
        let mine: Vec<_> = calls.iter().filter(|c| c.0 == p.id).collect();
        let logs = !matches!(BEHAVIOURS[p.behaviour], "syntax-error" | "no-validate");
        if mine.len() > 1 {
            sink.fail("C18:validate-called-twice", describe(&format!("{} was called {} times", p.id, mine.len())), input.clone());
        }
        if failing.is_empty() && logs && mine.len() != 1 {
            sink.fail("C18:validate-not-called", describe(&format!("{} was called {} times although no script fails", p.id, mine.len())), input.clone());
        }
        for c in mine {
            if c.1 != p.file || c.2 != p.tag_line {
                sink.fail("C18:wrong-file-or-line", describe(&format!("{} got file {:?} line {} instead of {:?} line {}", p.id, c.1, c.2, p.file, p.tag_line)), input.clone());
            }
            if c.3 != p.attrs {
                sink.fail("C18:wrong-attributes", describe(&format!("{} got attrs {:?} instead of {:?}", p.id, c.3, p.attrs)), input.clone());
            }
            if c.4 != p.content {
                sink.fail("C18:wrong-content", describe(&format!("{} got content {:?} instead of {:?}", p.id, c.4, p.content)), input.clone());
            }
        }
    }
    match outcome {
        Outcome::Panic { message } => sink.fail(format!("C18:panic:{}", first_line(message)), describe(message), input.clone()),
        Outcome::Error { stage, message, .. } => {
            if failing.is_empty() {
                sink.fail(format!("C18:unexpected-error:{stage}"), describe(&first_line(message)), input.clone());
            }
        }
        Outcome::Report { diags, .. } => {
            if let Some(f) = failing.first() {
                sink.fail(
                    format!("C18:failure-masked:{}", BEHAVIOURS[f.behaviour]),
                    describe(&format!("block {} ({}) must fail the run, but it reported {} diagnostics and succeeded", f.id, BEHAVIOURS[f.behaviour], diags.len())),
                    input.clone(),
                );
                return;
            }
            for p in plans {
                let mine: Vec<_> = diags.iter().filter(|d| d.code == "check-lua" && d.file == p.file && d.range.0 as usize == p.tag_line).collect();
                let want = if p.behaviour == 1 { 1 } else { 0 };
                if mine.len() != want {
                    sink.fail(format!("C18:wrong-diagnostic-count:{}", BEHAVIOURS[p.behaviour]), describe(&format!("{} has {} check-lua diagnostics, expected {want}", p.id, mine.len())), input.clone());
                }
                for d in mine {
                    let msg = format!("msg<{}>", p.id);
                    if d.data.get("lua_error").and_then(Value::as_str) != Some(msg.as_str()) || !d.message.contains(&msg) {
                        sink.fail("C18:diagnostic-does-not-carry-the-string", describe(&format!("{}: {} / {}", p.id, d.message, d.data)), input.clone());
                    }
                }
            }
            let stray = diags.iter().filter(|d| !plans.iter().any(|p| d.code == "check-lua" && d.file == p.file && d.range.0 as usize == p.tag_line)).count();
            if stray > 0 {
                sink.fail("C18:stray-diagnostic", describe(&format!("{stray} diagnostics belong to no block")), input.clone());
            }
        }
    }
}

/// Explores every schedule × map order of one block set.
fn check_blocks(blocks: &[(usize, usize)], sink: &Sink) -> e2::Stats {
    let mut total = e2::Stats::default();
    KIT.with(|kit| {
        let (files, plans) = build(kit, blocks);
        let input_json = json!({"blocks": blocks.iter().map(|(b, f)| json!([b, f])).collect::<Vec<_>>()});
        let names: Vec<String> = files.iter().map(|f| f.0.clone()).collect();
        for order in permutations(names.len()) {
            let map_order: Vec<String> = order.iter().map(|&i| names[i].clone()).collect();
            let input = Input { files: files.clone(), map_order: Some(map_order.clone()), ..Default::default() };
            if let Err(e) = e2::replay_is_deterministic(&input, &[]) {
                sink.machinery(format!("C18: a replayed schedule is not deterministic: {e}"));
                return;
            }
            kit.reset_log();
            let stats = e2::explore(&input, None, 5000, |outcome, trace| {
                let calls = kit.calls();
                kit.reset_log();
                sink.exec();
                let schedule = trace.iter().map(|c| format!("{}:{}/{}", c.label, c.chosen, c.options)).collect::<Vec<_>>().join(" ");
                sink.outcome(format!("k={}:{}:failing={}", blocks.len(), outcome.class(), plans.iter().filter(|p| !ok_behaviour(p.behaviour)).count().min(2)));
                judge(&plans, outcome, &calls, &format!("map {map_order:?}; {schedule}"), &input_json, sink);
            });
            if let Some(d) = &stats.divergence {
                sink.machinery(format!("C18: replay divergence: {d}"));
            }
            total.schedules += stats.schedules;
            total.max_choice_points = total.max_choice_points.max(stats.max_choice_points);
            total.capped |= stats.capped;
        }
        // Diff mode (every line added) with a path argument that matches no file: the blocks are
        // modified and named by the diff, so the same calls and verdicts are due.
        if !files.is_empty() {
            let diff: String = files.iter().map(|(n, t)| crate::cli::new_file_diff(n, t)).collect();
            kit.reset_log();
            sink.exec();
            let outcome = crate::librun::run(&Input { files: files.clone(), diff: Some(diff), globs: vec!["nomatch/**".into()], map_order: Some(names.clone()), ..Default::default() });
            let calls = kit.calls();
            kit.reset_log();
            sink.outcome(format!("diff+other-glob:{}", outcome.class()));
            judge(&plans, &outcome, &calls, "diff mode with a non-matching path argument", &input_json, sink);
        }
        if !blocks.is_empty() {
            sink.nontrivial();
        }
        if blocks.len() == 3 {
            sink.sample(|| json!({"input": input_json, "files": files}));
        }
    });
    total
}

/// Content selection: trimmed content, or `check-lua-pattern` value group / whole first match / "".
#[derive(Clone, Debug, PartialEq, Eq, Hash)]
struct ContentCase {
    content: usize,
    pattern: usize,
    attr: usize,
}

const CONTENTS: &[&str] = &["v1 = 1", "  v1 = \"é ≤\"  ", "\n\nv1\n\n  v2\t\n\n", "'single' \"double\" \\back", "", "   ", "line1\r\nline2 v3"];
const PATTERNS: &[Option<&str>] = &[None, Some(r"(?P<value>v\d+)"), Some(r"v\d+"), Some(r"nomatch\d"), Some(r"(?s)^(?P<value>.*)$"), Some(r"(?P<other>v\d)"), Some(r"(?P<value>\s+v\d)"), Some(r"\S+\s*$")];
// The last one is the other content-taking validator's pattern attribute: without `check-ai` it
// selects nothing and must not change what the script is given.
const EXTRA_ATTRS: &[(&str, &str)] = &[("", ""), ("note", "say 'hi' é ≤"), ("severity", "warning"), ("name", "n-1_x"), ("check-ai-pattern", "(?P<value>\\d)")];

fn check_content(case: &ContentCase, sink: &Sink) {
    KIT.with(|kit| {
        let script = kit.script(0);
        let body = CONTENTS[case.content];
        let pattern = PATTERNS[case.pattern];
        let (ak, av) = EXTRA_ATTRS[case.attr];
        let mut attrs_written = format!("id=\"c\" check-lua=\"{script}\"");
        let mut attrs_expected = vec![format!("check-lua={script}"), "id=c".to_string()];
        if let Some(p) = pattern {
            attrs_written.push_str(&format!(" check-lua-pattern=\"{p}\""));
            attrs_expected.push(format!("check-lua-pattern={p}"));
        }
        if !ak.is_empty() {
            attrs_written.push_str(&format!(" {ak}=\"{av}\""));
            attrs_expected.push(format!("{ak}={av}"));
        }
        // The script sorts by attribute name.
        attrs_expected.sort_by(|a, b| a.split('=').next().cmp(&b.split('=').next()));
        let text = format!("# <block {attrs_written}>\n{body}\n# </block>\n");
        let raw_content = format!("\n{body}\n");
        let expected = match pattern {
            None => raw_content.trim().to_string(),
            Some(p) => {
                let re = Regex::new(p).unwrap();
                match re.captures(&raw_content) {
                    Some(c) => c.name("value").or_else(|| c.get(0)).map(|m| m.as_str().to_string()).unwrap_or_default(),
                    None => String::new(),
                }
            }
        };
        let input_json = json!({"content": case.content, "pattern": case.pattern, "attr": case.attr});
        kit.reset_log();
        sink.exec();
        let outcome = crate::librun::run(&Input { files: vec![("a.py".into(), text.clone())], ..Default::default() });
        let calls = kit.calls();
        let describe = |extra: &str| format!("content {body:?}, pattern {pattern:?}, extra attribute {ak:?}={av:?}: {extra}");
        sink.outcome(format!("content:{}", outcome.class()));
        match &outcome {
            Outcome::Report { diags, .. } if diags.is_empty() => {}
            other => {
                sink.fail("C18:content:unexpected-outcome", describe(&format!("{}", other.to_json())), input_json.clone());
                return;
            }
        }
        match calls.as_slice() {
            [c] => {
                if c.4 != expected {
                    sink.fail(format!("C18:content:wrong-content:pattern={}", case.pattern), describe(&format!("validate got {:?}, expected {:?}", c.4, expected)), input_json.clone());
                }
                if c.3 != attrs_expected.join("\u{1f}") {
                    sink.fail("C18:content:wrong-attributes", describe(&format!("validate got attrs {:?}, expected {:?}", c.3, attrs_expected)), input_json.clone());
                }
                if c.1 != "a.py" || c.2 != 1 {
                    sink.fail("C18:content:wrong-file-or-line", describe(&format!("{:?}:{}", c.1, c.2)), input_json.clone());
                }
            }
            other => sink.fail("C18:content:call-count", describe(&format!("{} calls", other.len())), input_json.clone()),
        }
        sink.nontrivial();
        if case.attr == 1 {
            sink.sample(|| json!({"file": text, "expected_content": expected}));
        }
    });
}

/// Start tags split over several lines of a multi-line comment: `ctx.line` is the line of `<`.
fn check_multiline_tag(host: usize, sink: &Sink) {
    KIT.with(|kit| {
        let script = kit.script(0);
        let (file, text, tag_line, content) = match host {
            0 => ("x.js", format!("/* note\n   <block id=\"c\"\n      check-lua=\"{script}\"> */\nv = 1\n/* </block> */\n"), 2usize, "v = 1"),
            1 => ("x.html", format!("<p>t</p>\n<!-- <block id=\"c\"\n   check-lua=\"{script}\"> -->\ntext\n<!-- </block> -->\n"), 2, "text"),
            _ => ("x.rs", format!("/**\n * note\n * <block id=\"c\"\n *   x=\"1\"\n *   check-lua=\"{script}\">\n */\nconst X: u8 = 1;\n// </block>\n"), 3, "const X: u8 = 1;"),
        };
        let input_json = json!({"multiline_tag": host});
        kit.reset_log();
        sink.exec();
        let outcome = crate::librun::run(&Input { files: vec![(file.into(), text.clone())], ..Default::default() });
        let calls = kit.calls();
        sink.outcome(format!("multiline-tag:{}", outcome.class()));
        match (&outcome, calls.as_slice()) {
            (Outcome::Report { diags, .. }, [c]) if diags.is_empty() => {
                if c.1 != file || c.2 != tag_line || c.4 != content {
                    sink.fail("C18:multiline-tag:wrong-file-line-or-content", format!("start tag on lines {tag_line}.. of a multi-line comment in {file}: validate got file {:?}, line {}, content {:?}\n{text}", c.1, c.2, c.4), input_json.clone());
                }
            }
            (other, calls) => sink.fail("C18:multiline-tag:unexpected-outcome", format!("{file}: {} calls, outcome {}\n{text}", calls.len(), other.to_json()), input_json.clone()),
        }
        sink.nontrivial();
    });
}

/// Large block sets: identity, reverse and rotation delivery orders only (capped).
fn check_large(k: usize, failing_at: Option<usize>, sink: &Sink) -> u64 {
    let mut n = 0;
    KIT.with(|kit| {
        let blocks: Vec<(usize, usize)> = (0..k).map(|i| (if Some(i) == failing_at { 3 } else { i % 2 }, i % 2)).collect();
        let (files, plans) = build(kit, &blocks);
        let input_json = json!({"large": k, "failing_at": failing_at});
        for (name, answers) in [("identity", vec![]), ("reverse", (0..k).rev().collect::<Vec<_>>()), ("rotation", vec![1; k.saturating_sub(1)])] {
            let mut choices = HashMap::new();
            choices.insert("joinset@check_lua#1".to_string(), answers);
            kit.reset_log();
            sink.exec();
            n += 1;
            let order: Vec<String> = files.iter().map(|f| f.0.clone()).collect();
            let (outcome, _trace, diverged) = crate::librun::run_traced(&Input { files: files.clone(), choices, map_order: Some(order), ..Default::default() });
            if diverged.is_some() && name != "identity" {
                // The recorded answers assume one JoinSet holding all k tasks; an implementation
                // that drains differently is still judged under the identity order.
                continue;
            }
            sink.outcome(format!("large:k={k}:{name}:{}", outcome.class()));
            judge(&plans, &outcome, &kit.calls(), &format!("{name} delivery order"), &input_json, sink);
        }
    });
    n
}

/// Free-running supplement through the real CLI (real threads, real multi-thread runtime): a
/// labelled sampling pass, never the deciding step.
fn cli_supplement(cfg: &Cfg, sink: &Sink) -> u64 {
    let mut n = 0;
    let kit = Kit::new();
    let repo = Scratch::repo("c18cli");
    for failing in [None, Some(2usize), Some(3), Some(4), Some(5), Some(6), Some(7)] {
        for position in 0..3 {
            let blocks: Vec<(usize, usize)> = (0..3).map(|i| (if i == position { failing.unwrap_or(1) } else { i % 2 }, i % 2)).collect();
            let (files, _) = build(&kit, &blocks);
            repo.clear();
            for (name, text) in &files {
                repo.write(name, text);
            }
            for workers in ["1", "4"] {
                n += 1;
                sink.exec();
                let run = cli::blockwatch(&cfg.bin, &repo.dir, &[], None, &[("BLOCKWATCH_LUA_MODE", "safe"), ("TOKIO_WORKER_THREADS", workers)], 30);
                let input = json!({"cli": {"failing": failing.map(|b| BEHAVIOURS[b]), "position": position, "workers": workers}});
                let want = Some(1); // a failing script, or the string-returning block's error-severity diagnostic
                if run.panicked() || run.timed_out || run.code != want {
                    sink.fail(format!("C18:cli:wrong-status:{}", failing.map(|b| BEHAVIOURS[b]).unwrap_or("none")), format!("{}", run.summary()), input);
                }
                sink.outcome(format!("cli:{}", if failing.is_some() { "failing" } else { "ok" }));
            }
        }
    }
    n
}

pub fn prepare_env() {
    // The call log needs `io`; the mode is read from the environment by the subject.
    unsafe { std::env::set_var("BLOCKWATCH_LUA_MODE", "safe") };
}

pub fn run(cfg: &Cfg, sink: &Arc<Sink>) -> Report {
    prepare_env();
    let mut report = Report::new("states = block sets: per block a script behaviour ∈ {nil, string, syntax error, runtime error, no validate, returns number/table/boolean, nil with module-level state} and a file ∈ {a.py, sub/b.py}; for every state every schedule is executed: all delivery orders of the check-lua JoinSet, all orders of the runner's thread bodies, all iteration orders of the block map (E2, choice-prefix DFS over the seams, real code re-executed per schedule); scripts append a call record (id, file, line, sorted attributes, content), so calls are counted and arguments compared; oracle: no failing block ⇒ every block called exactly once with faithful arguments, nil ⇒ no diagnostic, string ⇒ exactly one carrying it; any failing block ⇒ the run fails in every schedule, each block called at most once; plus content/pattern/attribute cases and large sets (8/16/40 blocks) under identity, reverse and rotation delivery orders; non-trivial = every non-empty block set");
    report.assume("tokio's JoinSet contract (join_next yields each spawned task's result once) is trusted; the seam replaces completion order by an explorer-chosen delivery order");
    report.assume("schedules inside one script body are not explored (bodies share only an immutable Arc)");
    let max_k = cfg.tier.pick(3, 4);
    let schedules = Arc::new(std::sync::atomic::AtomicU64::new(0));
    let max_points = Arc::new(std::sync::atomic::AtomicU64::new(0));
    let (s2, m2) = (Arc::clone(&schedules), Arc::clone(&max_points));
    // Thorough k=4: restrict the behaviours of the 4th block to keep the space tractable.
    report.phase(engine::explore(
        "block sets × all schedules",
        &format!("all sequences of ≤{max_k} blocks over 9 behaviours × 2 files; per state all map orders × all schedules of the seams (no deviation bound)"),
        Sequences {
            alphabet: (BEHAVIOURS.len() * 2) as u8,
            max_len: max_k,
            check: move |seq: &[u8], sink: &Sink| {
                if seq.len() == 4 && (seq[3] / 2) % 3 != 0 {
                    return; // 4th block: behaviours nil, runtime-error, returns-table only
                }
                let blocks: Vec<(usize, usize)> = seq.iter().map(|&s| ((s / 2) as usize, (s % 2) as usize)).collect();
                let stats = check_blocks(&blocks, sink);
                s2.fetch_add(stats.schedules, std::sync::atomic::Ordering::Relaxed);
                m2.fetch_max(stats.max_choice_points as u64, std::sync::atomic::Ordering::Relaxed);
                if stats.capped {
                    sink.machinery("C18: schedule cap hit");
                }
            },
        },
        sink,
        cfg.threads,
        false,
    ));
    report.extra.insert("schedules_executed".into(), json!(schedules.load(std::sync::atomic::Ordering::Relaxed)));
    report.extra.insert("max_choice_points_per_execution".into(), json!(max_points.load(std::sync::atomic::Ordering::Relaxed)));
    if max_k == 4 {
        report.cap("k=4: the 4th block ranges over 3 of the 8 behaviours");
    }
    let mut cases = Vec::new();
    for content in 0..CONTENTS.len() {
        for pattern in 0..PATTERNS.len() {
            for attr in 0..EXTRA_ATTRS.len() {
                cases.push(ContentCase { content, pattern, attr });
            }
        }
    }
    let n = cases.len();
    report.phase(engine::explore("content × pattern × attributes", &format!("{n} cases (full product)"), Grid { cases, check: |c: &ContentCase, s: &Sink| check_content(c, s) }, sink, cfg.threads, false));
    report.phase(engine::explore("start tags split over lines of a multi-line comment", "3 hosts (JS block comment, HTML comment, Rust decorated doc comment)", Grid { cases: vec![0usize, 1, 2], check: |h: &usize, s: &Sink| check_multiline_tag(*h, s) }, sink, cfg.threads, false));
    let mut n = 0;
    for k in [8usize, 16, 40] {
        for failing_at in [None, Some(0), Some(k / 2), Some(k - 1)] {
            n += check_large(k, failing_at, sink);
        }
    }
    report.phase(Phase { name: "large block sets (capped)".into(), states: n, transitions: n, max_depth: 1, exhaustive: false, bound: "k ∈ {8,16,40} × failing block ∈ {none, first, middle, last} × delivery order ∈ {identity, reverse, rotation}".into() });
    report.cap("k ∈ {8,16,40}: only 3 delivery orders each (k! is out of reach)");
    let n = cli_supplement(cfg, sink);
    report.phase(Phase { name: "supplement: free-running CLI (sampling, labelled)".into(), states: n, transitions: n, max_depth: 1, exhaustive: false, bound: "7 failure kinds × 3 positions × TOKIO_WORKER_THREADS ∈ {1,4}, real threads; not a deciding step".into() });
    report
}

pub fn replay(cfg: &Cfg, input: &Value, sink: &Arc<Sink>) {
    prepare_env();
    if let Some(h) = input.get("multiline_tag").and_then(Value::as_u64) {
        check_multiline_tag(h as usize, sink);
    } else if input.get("cli").is_some() {
        cli_supplement(cfg, sink);
    } else if let Some(k) = input.get("large").and_then(Value::as_u64) {
        check_large(k as usize, input["failing_at"].as_u64().map(|v| v as usize), sink);
    } else if let Some(c) = input.get("content").and_then(Value::as_u64) {
        check_content(&ContentCase { content: c as usize, pattern: input["pattern"].as_u64().unwrap_or(0) as usize, attr: input["attr"].as_u64().unwrap_or(0) as usize }, sink);
    } else {
        let blocks: Vec<(usize, usize)> = input["blocks"].as_array().map(|a| a.iter().filter_map(|v| Some((v[0].as_u64()? as usize, v[1].as_u64()? as usize))).collect()).unwrap_or_default();
        check_blocks(&blocks, sink);
    }
}
