//! C13: malformed rules fail closed. Fault enumeration: rule kind × malformation × position of the
//! bad block among healthy blocks × file placement × block-map order (library), plus the real CLI
//! for the exit status and the message.

use crate::cli::{self, Scratch};
use crate::core::{Cfg, Phase, Report, Sink, permutations};
use crate::engine::{self, Grid};
use crate::librun::{self, Input, Outcome};
use crate::props::rules::first_line;
use serde_json::{Value, json};
use std::sync::{Arc, OnceLock};

/// (kind, attributes of the bad block, content lines, needs diff, what is malformed)
pub struct Malformation {
    pub kind: &'static str,
    pub attrs: String,
    pub content: &'static [&'static str],
    pub diff: bool,
}

fn scripts() -> &'static (Scratch, String) {
    static S: OnceLock<(Scratch, String)> = OnceLock::new();
    S.get_or_init(|| {
        let s = Scratch::new("c13lua");
        s.write("ok.lua", "function validate(ctx, content)\n  return nil\nend\n");
        s.write("empty.lua", "");
        s.write_bytes("invalid-utf8.lua", b"function validate(ctx, content)\n  return \"\xff\xfe\"\nend -- \xc3\x28\n");
        s.write("novalidate.lua", "x = 1\n");
        std::fs::create_dir_all(s.path("adir.lua")).unwrap();
        let dir = s.dir.display().to_string();
        (s, dir)
    })
}

pub fn malformations() -> Vec<Malformation> {
    let dir = &scripts().1;
    let two: &[&str] = &["a = 1", "b = 2"];
    let mut v = Vec::new();
    let mut add = |kind: &'static str, attrs: String, content: &'static [&'static str], diff: bool| v.push(Malformation { kind, attrs, content, diff });
    for value in ["up", "ascending", "asc desc", "ASCENDING", "asc,", "1", "true", "descending"] {
        add("keep-sorted:unknown-direction", format!("keep-sorted=\"{value}\""), two, false);
    }
    for value in ["num", "numeric2", "alphabetical", "number", "numeric lexicographic", "0"] {
        add("keep-sorted-format:unknown", format!("keep-sorted keep-sorted-format=\"{value}\""), &["1", "2"], false);
    }
    let numeric_cases: &[&[&str]] = &[&["x", "1"], &["1", "x"], &["1", "2", "x"], &["1", "x", "3"], &["1", "2", "3", "1O"], &["1", "", "two"], &["1", "2,5"], &["1", "0x10"], &["x", "x"], &["N/A", "N/A", "N/A"], &["1", "1", "x", "x"]];
    for content in numeric_cases {
        add("keep-sorted:non-numeric-key-under-numeric-sort", "keep-sorted keep-sorted-format=\"numeric\"".to_string(), content, false);
    }
    add("keep-sorted:non-numeric-key-under-numeric-sort", "keep-sorted keep-sorted-format=\"numeric\" keep-sorted-pattern=\"k=(?P<value>\\w+)\"".to_string(), &["k=1", "k=two"], false);
    for (attr, label) in [("keep-sorted keep-sorted-pattern", "keep-sorted-pattern:bad-regex"), ("keep-unique", "keep-unique:bad-regex"), ("line-pattern", "line-pattern:bad-regex")] {
        for re in ["(", "[a", "*a", "(?P<value>", "a{2,1}", "\\"] {
            add(label, format!("{attr}='{re}'"), two, false);
        }
    }
    for value in ["", "  ", "5", "=5", "< 5 6", "<=99999999999999999999999", "< -1", "<= x", "=>3", "<>3", "<", "== ", "≤3", "<3.5", "< 0x3", "!=3"] {
        add("line-count:bad-expression", format!("line-count=\"{value}\""), two, false);
    }
    for value in ["nocolon", "a:b, c", "x.py", ",", "a:b,", ""] {
        add("affects:reference-without-colon", format!("name=\"m\" affects=\"{value}\""), two, true);
    }
    for value in ["fatal", "", "warn", "1", "error warning", "Errors"] {
        // The block has a violation (unsorted), so its severity is needed.
        add("severity:unknown-on-violating-block", format!("keep-sorted severity=\"{value}\""), &["b = 1", "a = 2"], false);
    }
    add("check-lua:empty-path", "check-lua=\"\"".to_string(), two, false);
    add("check-lua:empty-path", "check-lua=\"   \"".to_string(), two, false);
    add("check-lua:missing-script", format!("check-lua=\"{dir}/nosuch.lua\""), two, false);
    add("check-lua:script-is-a-directory", format!("check-lua=\"{dir}/adir.lua\""), two, false);
    add("check-lua:empty-script", format!("check-lua=\"{dir}/empty.lua\""), two, false);
    add("check-lua:invalid-utf8-script", format!("check-lua=\"{dir}/invalid-utf8.lua\""), two, false);
    add("check-lua:no-validate", format!("check-lua=\"{dir}/novalidate.lua\""), two, false);
    add("check-lua-pattern:bad-regex", format!("check-lua=\"{dir}/ok.lua\" check-lua-pattern=\"(\""), two, false);
    add("check-ai:empty-condition", "check-ai=\"\"".to_string(), two, false);
    add("check-ai:empty-condition", "check-ai=\"  \"".to_string(), two, false);
    add("check-ai-pattern:bad-regex", "check-ai=\"fine\" check-ai-pattern=\"(\"".to_string(), two, false);
    add("check-ai:missing-key", "check-ai=\"must be fine\"".to_string(), two, false);
    add("check-ai:missing-key", "check-ai=\"must be fine\" check-ai-pattern=\"nomatch\\d\"".to_string(), two, false);
    drop(add);
    // The same malformations on a block without content (empty, blank-only), for the rule kinds
    // whose clause in the property has no "with content" qualifier.
    let no_content_ok = ["keep-sorted:unknown-direction", "keep-sorted-format:unknown", "line-count:bad-expression", "check-lua:", "check-ai:"];
    let mut extra = Vec::new();
    for m in &v {
        if no_content_ok.iter().any(|k| m.kind.starts_with(k)) && !m.attrs.contains("pattern") {
            for content in [&[][..], &["", "   "][..]] {
                extra.push(Malformation { kind: m.kind, attrs: m.attrs.clone(), content, diff: m.diff });
            }
        }
    }
    v.extend(extra);
    v
}

/// Healthy companions: (attributes, content). `{lua}` is replaced by a healthy script's path, so
/// that an async validator runs next to the sync ones and a healthy script next to a broken one.
const HEALTHY: &[(&str, &[&str])] = &[
    ("name=\"h0\" keep-sorted keep-unique", &["a = 1", "b = 2"]),
    ("name=\"h1\" line-count=\"<1\" severity=\"warning\"", &["c = 1"]),
    ("name=\"h2\" line-pattern=\"^[a-z] = \\d$\" keep-sorted=\"desc\" check-lua=\"{lua}\"", &["z = 1", "a = 2"]),
];

#[derive(Clone, Debug, PartialEq, Eq, Hash)]
struct Case {
    malformation: usize,
    /// Position of the bad block among the healthy ones: 0 first, 1 middle, 2 last, 3 alone.
    position: u8,
    /// The bad block lives in its own file.
    own_file: bool,
    /// 0 as is; 1 the bad block also carries healthy, satisfied rules of other kinds; 2 it is
    /// nested inside a healthy block; 3 it lives in a Markdown file (HTML comments).
    variant: u8,
}

fn build(m: &Malformation, case: &Case) -> Vec<(String, String)> {
    let block = |attrs: &str, content: &[&str]| format!("# <block {attrs}>\n{}\n# </block>\npad = 0\n", content.join("\n"));
    let mut bad_attrs = m.attrs.clone();
    if case.variant == 1 {
        for (name, rule) in [("line-count", " line-count=\">=0\""), ("line-pattern", " line-pattern=\".*\"")] {
            if !bad_attrs.contains(name) {
                bad_attrs.push_str(rule);
            }
        }
    }
    let mut bad = block(&bad_attrs, m.content);
    if case.variant == 2 {
        bad = format!("# <block name=\"outer\" line-count=\">=0\" keep-unique>\nfirst = 0\n{bad}# </block>\n");
    }
    let bad_file = if case.variant == 3 { "y.md" } else { "y.py" };
    if case.variant == 3 {
        bad = format!("# Title\n\n<!-- <block {bad_attrs}> -->\n{}\n\n<!-- </block> -->\n", m.content.join("\n"));
    }
    if case.position == 3 {
        return vec![(if case.variant == 3 { "x.md" } else { "x.py" }.to_string(), bad)];
    }
    let ok_script = format!("{}/ok.lua", scripts().1);
    let healthy: Vec<String> = HEALTHY.iter().map(|(a, c)| block(&a.replace("{lua}", &ok_script), c)).collect();
    if case.own_file {
        // Healthy blocks in x.py and z.py, the bad one in y.py (walk order decides first/middle/last).
        let mut files = vec![("x.py".to_string(), format!("{}{}", healthy[0], healthy[1])), ("z.py".to_string(), healthy[2].clone())];
        files.insert(case.position as usize, (bad_file.to_string(), bad));
        files
    } else {
        let mut parts = healthy.clone();
        parts.insert(match case.position { 0 => 0, 1 => 1, _ => 3 }, bad);
        vec![("x.py".to_string(), parts.concat()), ("w.py".to_string(), block(HEALTHY[0].0, HEALTHY[0].1))]
    }
}

fn check_case(case: &Case, ms: &[Malformation], sink: &Sink) {
    let m = &ms[case.malformation];
    let files = build(m, case);
    let input = json!({"malformation": case.malformation, "position": case.position, "own_file": case.own_file, "variant": case.variant, "kind": m.kind, "attrs": m.attrs});
    let diff = m.diff.then(|| files.iter().map(|(n, t)| cli::new_file_diff(n, t)).collect::<String>());
    let names: Vec<String> = files.iter().map(|f| f.0.clone()).collect();
    for order in permutations(names.len()) {
        let map_order: Vec<String> = order.iter().map(|&i| names[i].clone()).collect();
        sink.exec();
        let outcome = librun::run(&Input { files: files.clone(), diff: diff.clone(), map_order: Some(map_order.clone()), ..Default::default() });
        sink.outcome(format!("{}:{}", m.kind.split(':').next().unwrap_or(""), outcome.class().split(':').take(2).collect::<Vec<_>>().join(":")));
        let describe = |extra: &str| format!("bad block `{}` with content {:?} at position {} ({}, {}), map order {map_order:?}: {extra}", m.attrs, m.content, case.position, if case.own_file { "own file" } else { "same file" }, ["as is", "with satisfied rules of other kinds", "nested in a healthy block", "in a Markdown file"][case.variant as usize]);
        match &outcome {
            Outcome::Error { message, .. } => {
                if message.trim().is_empty() {
                    sink.fail(format!("C13:error-without-explanation:{}", m.kind), describe("empty error message"), input.clone());
                }
            }
            Outcome::Panic { message } => sink.fail(format!("C13:panic:{}:{}", m.kind, first_line(message)), describe(message), input.clone()),
            Outcome::Report { diags, .. } => {
                // A diagnostic of error severity on the bad block also makes the run exit non-zero
                // (e.g. an out-of-order key met before the non-numeric one).
                if outcome.exit_status() == 0 {
                    sink.fail(format!("C13:malformed-rule-passes:{}", m.kind), describe(&format!("the run succeeded (exit 0) with diagnostics {:?}", diags.iter().map(|d| (&d.code, d.severity)).collect::<Vec<_>>())), input.clone());
                }
            }
        }
    }
    // Diff mode with a path argument that matches none of the files: every file is named by the
    // all-lines-added diff, so the bad block is modified and in scope all the same.
    if case.variant == 0 && (case.position == 3 || case.position == 1) {
        let all_added = files.iter().map(|(n, t)| cli::new_file_diff(n, t)).collect::<String>();
        sink.exec();
        let outcome = librun::run(&Input { files: files.clone(), diff: Some(all_added), globs: vec!["nomatch/**".into()], map_order: Some(names.clone()), ..Default::default() });
        sink.outcome(format!("{}:diff+other-glob:{}", m.kind.split(':').next().unwrap_or(""), outcome.class().split(':').take(2).collect::<Vec<_>>().join(":")));
        match &outcome {
            Outcome::Panic { message } => sink.fail(format!("C13:panic:{}:{}", m.kind, first_line(message)), format!("bad block `{}` in diff mode with a non-matching path argument: {message}", m.attrs), input.clone()),
            _ if outcome.exit_status() == 0 => sink.fail(format!("C13:malformed-rule-passes:diff+other-glob:{}", m.kind), format!("bad block `{}` with content {:?}, every file named by the diff, path argument `nomatch/**`: the run succeeded (exit 0)", m.attrs, m.content), input.clone()),
            _ => {}
        }
    }
    // Every schedule of the seams (order of validator bodies, delivery order of async results):
    // the failure must not depend on which validator finishes first.
    if case.position == 1 && case.variant == 0 {
        let stats = crate::e2::explore(&Input { files: files.clone(), diff: diff.clone(), map_order: Some(names.clone()), ..Default::default() }, None, 3000, |outcome, trace| {
            sink.exec();
            if outcome.exit_status() == 0 || matches!(outcome, Outcome::Panic { .. }) {
                let schedule = trace.iter().map(|c| format!("{}:{}/{}", c.label, c.chosen, c.options)).collect::<Vec<_>>().join(" ");
                sink.fail(format!("C13:malformed-rule-passes-in-some-schedule:{}", m.kind), format!("bad block `{}`: schedule [{schedule}] gives {}", m.attrs, outcome.to_json()), input.clone());
            }
        });
        if stats.divergence.is_some() || stats.capped {
            sink.machinery(format!("C13 schedules: divergence {:?} capped {}", stats.divergence, stats.capped));
        }
    }
    sink.nontrivial();
    if case.position == 1 {
        sink.sample(|| json!({"input": input, "files": files}));
    }
}

fn cli_slice(cfg: &Cfg, ms: &[Malformation], sink: &Sink) -> u64 {
    let repo = Scratch::repo("c13");
    let mut n = 0;
    for (mi, m) in ms.iter().enumerate() {
        for (position, own_file) in [(3u8, false), (1, false), (2, true)] {
            let case = Case { malformation: mi, position, own_file, variant: 0 };
            let files = build(m, &case);
            repo.clear();
            for (name, text) in &files {
                repo.write(name, text);
            }
            let diff = m.diff.then(|| files.iter().map(|(n, t)| cli::new_file_diff(n, t)).collect::<String>());
            n += 1;
            sink.exec();
            // No AI key and no AI endpoint: the missing-key case must fail closed too.
            let run = cli::blockwatch(&cfg.bin, &repo.dir, &[], diff.as_deref(), &[("BLOCKWATCH_AI_API_URL", "http://127.0.0.1:9/v1")], 30);
            let input = json!({"cli": true, "malformation": mi, "position": position, "own_file": own_file, "kind": m.kind, "attrs": m.attrs});
            sink.outcome(format!("cli:{}:{:?}", m.kind.split(':').next().unwrap_or(""), run.code));
            if run.panicked() || run.timed_out {
                sink.fail(format!("C13:cli:crash:{}", m.kind), format!("`{}`: {}", m.attrs, run.summary()), input);
            } else if run.code == Some(0) {
                sink.fail(format!("C13:cli:malformed-rule-passes:{}", m.kind), format!("`{}`: exit 0: {}", m.attrs, run.summary()), input);
            } else if run.stderr.trim().is_empty() {
                sink.fail(format!("C13:cli:no-explanation:{}", m.kind), format!("`{}`: {}", m.attrs, run.summary()), input);
            }
        }
    }
    n
}

pub fn run(cfg: &Cfg, sink: &Arc<Sink>) -> Report {
    // The library runs need no endpoint: missing key fails before any request.
    unsafe {
        std::env::remove_var("BLOCKWATCH_AI_API_KEY");
        std::env::set_var("BLOCKWATCH_AI_API_URL", "http://127.0.0.1:9/v1");
    }
    let mut report = Report::new("cases = every malformation of every rule kind (unknown sort direction / format, non-numeric keys under numeric sort at every position, uncompilable regex in each regex-carrying attribute, bad line-count expressions incl. empty, overflow, negative, garbage, wrong operators, affects references without colon on a modified block, unknown severity on a violating block, check-lua with empty / missing / directory / empty-file / invalid-UTF-8 / validate-less script and bad pattern, check-ai with empty condition, bad pattern, missing key) × position of the bad block {alone, first, middle, last} × {same file as the healthy blocks, own file} × {as is; with satisfied rules of other kinds on the same block; nested inside a healthy block; in a Markdown file} × every block-map order, alone and middle also in diff mode with a path argument matching no file, the middle position additionally under every schedule of the validator seams (library), and {alone, middle, own file last} through the real CLI; oracle: the run ends with an explanatory error or, at least, a non-zero status — never exit 0, never a panic; non-trivial = every case");
    report.assume("the property's qualifiers are honoured: regexes sit on blocks with content, unknown severities on blocks with a violation, colon-less references on modified blocks");
    let ms = Arc::new(malformations());
    let mut cases = Vec::new();
    for malformation in 0..ms.len() {
        for variant in 0..4u8 {
            cases.push(Case { malformation, position: 3, own_file: false, variant });
            for position in 0..3u8 {
                for own_file in [false, true] {
                    // A Markdown block cannot share a Python file.
                    if variant == 3 && !own_file {
                        continue;
                    }
                    // The variants go with the alone / middle positions only (quick and thorough).
                    if variant != 0 && position != 1 {
                        continue;
                    }
                    cases.push(Case { malformation, position, own_file, variant });
                }
            }
        }
    }
    let n = cases.len();
    let ms2 = Arc::clone(&ms);
    report.phase(engine::explore(
        "malformation × position × placement × map order (library)",
        &format!("{n} cases × all block-map orders ({} malformations)", ms.len()),
        Grid { cases, check: move |c: &Case, s: &Sink| check_case(c, &ms2, s) },
        sink,
        cfg.threads,
        false,
    ));
    let n = cli_slice(cfg, &ms, sink);
    report.phase(Phase { name: "real CLI".into(), states: n, transitions: n, max_depth: 1, exhaustive: true, bound: "every malformation × {alone, middle of the same file, own file last}".into() });
    report
}

pub fn replay(cfg: &Cfg, input: &Value, sink: &Arc<Sink>) {
    unsafe {
        std::env::remove_var("BLOCKWATCH_AI_API_KEY");
        std::env::set_var("BLOCKWATCH_AI_API_URL", "http://127.0.0.1:9/v1");
    }
    let ms = malformations();
    if input.get("cli").is_some() {
        cli_slice(cfg, &ms, sink);
        return;
    }
    let case = Case { malformation: input["malformation"].as_u64().unwrap_or(0) as usize, position: input["position"].as_u64().unwrap_or(3) as u8, own_file: input["own_file"].as_bool().unwrap_or(false), variant: input["variant"].as_u64().unwrap_or(0) as u8 };
    check_case(&case, &ms, sink);
}
