//! Shared machinery of C01/C02: labelled files (every line knows by construction whether it is
//! outside, a start-tag comment line, content, or an end-tag comment line), line edits, real git
//! diffs, and an independent reader of unified diffs driven by the `@@` counts only.

use crate::cli::TreePair;
use serde_json::{Value, json};

#[derive(Clone, Debug, Hash, PartialEq, Eq)]
pub enum Label {
    Outside,
    /// A line of the comment holding block `id`'s start tag; `true` on the line(s) holding the
    /// tag text itself (from `<` to `>`).
    Start(u8, bool),
    /// A line of the comment holding block `id`'s end tag.
    End(u8),
    /// Inside at least one block (which ones follows from the position).
    Content,
}

#[derive(Clone, Debug, Hash, PartialEq, Eq)]
pub struct LLine {
    pub text: String,
    pub label: Label,
    /// Character-level edits applied to this (tag) line so far: see `MARK_*`.
    pub marks: u8,
}

/// A character inside the start tag's `<`…`>` span was changed, inserted or removed.
pub const MARK_SPAN: u8 = 1;
/// A character of the tag's comment outside the span was changed.
pub const MARK_COMMENT: u8 = 2;
/// A character of content that shares the line with the tag comment was changed.
pub const MARK_CONTENT: u8 = 4;

#[derive(Clone, Debug, Hash, PartialEq, Eq)]
pub struct LFile {
    pub name: &'static str,
    pub lines: Vec<LLine>,
    pub trailing_newline: bool,
    /// Lines end with CR LF.
    pub crlf: bool,
    /// Markdown block structure: insertions only after a non-blank text line.
    pub markdown: bool,
    /// `{}` is replaced by a counter to make a fresh, valid line of the language.
    pub fresh: &'static str,
}

impl LFile {
    /// What line `n` (1-based) is, for comparing the two sides of a positional `-`/`+` pairing:
    /// outside, a tag-comment line of block i, or content of the innermost block i.
    pub fn line_class(&self, n: usize) -> String {
        match &self.lines[n - 1].label {
            Label::Outside => "outside".to_string(),
            Label::Start(id, _) | Label::End(id) => format!("tag:{id}"),
            Label::Content => {
                let inner = self.spans().into_iter().filter(|(_, _, s2, e1, _)| *s2 < n && n < *e1).max_by_key(|(_, s1, ..)| *s1);
                match inner {
                    Some((id, ..)) => format!("content:{id}"),
                    None => "outside".to_string(),
                }
            }
        }
    }
    pub fn text(&self) -> String {
        let eol = if self.crlf { "\r\n" } else { "\n" };
        let mut s = self.lines.iter().map(|l| l.text.as_str()).collect::<Vec<_>>().join(eol);
        if self.trailing_newline && !self.lines.is_empty() {
            s.push_str(eol);
        }
        s
    }
    /// Spans of every block: (id, s1, s2, e1, e2), 1-based line numbers of the start comment's
    /// first/last line and the end comment's first/last line.
    pub fn spans(&self) -> Vec<(u8, usize, usize, usize, usize)> {
        let mut spans: Vec<(u8, usize, usize, usize, usize)> = Vec::new();
        for (i, l) in self.lines.iter().enumerate() {
            let n = i + 1;
            match &l.label {
                Label::Start(id, _) => match spans.iter_mut().find(|s| s.0 == *id) {
                    Some(s) => s.2 = n,
                    None => spans.push((*id, n, n, 0, 0)),
                },
                Label::End(id) => {
                    let s = spans.iter_mut().find(|s| s.0 == *id).expect("end tag after start tag");
                    if s.3 == 0 {
                        s.3 = n;
                    }
                    s.4 = n;
                }
                _ => {}
            }
        }
        spans
    }
    /// 1-based line of the `<` of block `id`'s start tag.
    pub fn tag_line(&self, id: u8) -> usize {
        self.lines.iter().position(|l| l.label == Label::Start(id, true)).expect("tag line") + 1
    }
}

/// Builds a labelled file from a compact description: one line per source line, prefixed by
/// `O|` outside, `C|` content, `S<id>|` start-comment line, `T<id>|` start-comment line holding the
/// tag text, `E<id>|` end-comment line.
pub fn lfile(name: &'static str, fresh: &'static str, spec: &str) -> LFile {
    let mut lines = Vec::new();
    for raw in spec.lines() {
        let (label, text) = raw.split_once('|').expect("label|text");
        let label = match label.as_bytes()[0] {
            b'O' => Label::Outside,
            b'C' => Label::Content,
            b'S' => Label::Start(label[1..].parse().unwrap(), false),
            b'T' => Label::Start(label[1..].parse().unwrap(), true),
            b'E' => Label::End(label[1..].parse().unwrap()),
            _ => panic!("bad label {label}"),
        };
        lines.push(LLine { text: text.to_string(), label, marks: 0 });
    }
    LFile { name, lines, trailing_newline: true, crlf: false, markdown: name.ends_with(".md"), fresh }
}

#[derive(Clone, Debug, Hash, PartialEq, Eq)]
pub enum Edit {
    /// Insert a line before index `pos` (0..=len): fresh text, or a copy of the previous line.
    Ins { file: usize, pos: usize, dup: bool },
    Del { file: usize, idx: usize },
    /// Replace a line: content/outside lines get fresh text; tag lines get (variant 0) a suffix
    /// inside the comment after the tag, or (variant 1, start tags) a changed attribute.
    Rep { file: usize, idx: usize, variant: u8 },
    /// A character-level edit of a tag line (C02), see `tag_char_edits`.
    TagChar { file: usize, idx: usize, kind: u8 },
    /// The file's line ends are converted (LF ↔ CR LF): every line changes, none in its text.
    FlipEol { file: usize },
}

impl Edit {
    pub fn to_json(&self) -> Value {
        match self {
            Edit::Ins { file, pos, dup } => json!({"ins": [file, pos, dup]}),
            Edit::Del { file, idx } => json!({"del": [file, idx]}),
            Edit::Rep { file, idx, variant } => json!({"rep": [file, idx, variant]}),
            Edit::TagChar { file, idx, kind } => json!({"tagchar": [file, idx, kind]}),
            Edit::FlipEol { file } => json!({"flipeol": [file]}),
        }
    }
    pub fn from_json(v: &Value) -> Option<Edit> {
        if let Some(a) = v.get("ins").and_then(Value::as_array) {
            return Some(Edit::Ins { file: a[0].as_u64()? as usize, pos: a[1].as_u64()? as usize, dup: a[2].as_bool()? });
        }
        if let Some(a) = v.get("del").and_then(Value::as_array) {
            return Some(Edit::Del { file: a[0].as_u64()? as usize, idx: a[1].as_u64()? as usize });
        }
        if let Some(a) = v.get("flipeol").and_then(Value::as_array) {
            return Some(Edit::FlipEol { file: a[0].as_u64()? as usize });
        }
        if let Some(a) = v.get("tagchar").and_then(Value::as_array) {
            return Some(Edit::TagChar { file: a[0].as_u64()? as usize, idx: a[1].as_u64()? as usize, kind: a[2].as_u64()? as u8 });
        }
        let a = v.get("rep")?.as_array()?;
        Some(Edit::Rep { file: a[0].as_u64()? as usize, idx: a[1].as_u64()? as usize, variant: a[2].as_u64()? as u8 })
    }
}

fn is_blank(s: &str) -> bool {
    s.trim().is_empty()
}

/// Edits applicable to `files`.
pub fn edits(files: &[LFile]) -> Vec<Edit> {
    let mut v = Vec::new();
    for (fi, f) in files.iter().enumerate() {
        v.push(Edit::FlipEol { file: fi });
        for pos in 0..=f.lines.len() {
            let prev = pos.checked_sub(1).map(|i| &f.lines[i]);
            let prev_plain = prev.is_some_and(|l| matches!(l.label, Label::Content | Label::Outside));
            if f.markdown {
                // Only right after a non-blank text line (keeps the block structure of Markdown).
                if !(prev_plain && !is_blank(&prev.unwrap().text)) {
                    continue;
                }
            }
            v.push(Edit::Ins { file: fi, pos, dup: false });
            if prev_plain {
                v.push(Edit::Ins { file: fi, pos, dup: true });
            }
        }
        for (idx, l) in f.lines.iter().enumerate() {
            match l.label {
                Label::Content | Label::Outside => {
                    if !(f.markdown && is_blank(&l.text)) {
                        v.push(Edit::Del { file: fi, idx });
                        v.push(Edit::Rep { file: fi, idx, variant: 0 });
                        if !f.markdown && !l.text.is_empty() {
                            // Replaced by an empty line.
                            v.push(Edit::Rep { file: fi, idx, variant: 2 });
                        }
                    }
                }
                Label::Start(_, true) => {
                    if l.text.contains('>') {
                        v.push(Edit::Rep { file: fi, idx, variant: 0 });
                    }
                    v.push(Edit::Rep { file: fi, idx, variant: 1 });
                }
                Label::End(_) => {
                    if l.text.contains("</block>") {
                        v.push(Edit::Rep { file: fi, idx, variant: 0 });
                    }
                }
                Label::Start(_, false) => {}
            }
        }
    }
    v
}

pub const TAG_CHAR_KINDS: u8 = 10;

/// The replacement character of the `counter`-th edit: it occurs nowhere else in the templates.
fn fresh_char(counter: usize) -> char {
    ['~', '^', '|', '¦'][counter % 4]
}

/// Applies character-level edit `kind` to the tag line `text`; returns the new text and the mark,
/// or `None` when the kind does not apply to this line.
///
/// Start-tag lines: 0 replace the first character of the `name` value; 1 insert ` z="9"` right
/// before `>`; 2 remove a trailing ` z="1"` attribute; 3 insert ` y="9"` right after `<block`
/// (all inside the `<`…`>` span); 4 replace the space before `<`; 5 replace the space after `>`;
/// 6 replace the last character of the note after the tag (all in the comment, outside the span);
/// 7 replace the first character after the end of the comment on the same line (content).
/// End-tag lines: 8 replace the space before `</block>`; 9 replace the space after it.
pub fn tag_char_edit(text: &str, kind: u8, counter: usize) -> Option<(String, u8)> {
    let c = fresh_char(counter);
    let replace_at = |at: usize, len: usize, with: &str| format!("{}{}{}", &text[..at], with, &text[at + len..]);
    if let Some(end) = text.find("</block>") {
        return match kind {
            8 => (end > 0 && text.as_bytes()[end - 1] == b' ' && end >= 2 && text.as_bytes()[end - 2] != b' ').then(|| (replace_at(end - 1, 1, &c.to_string()), MARK_COMMENT)),
            9 => {
                let after = end + 8;
                (text[after..].starts_with(" n")).then(|| (replace_at(after, 1, &c.to_string()), MARK_COMMENT))
            }
            _ => None,
        };
    }
    let lt = text.find("<block")?;
    let gt = tag_end(text, lt)?;
    match kind {
        0 => {
            let at = text[lt..gt].find("name=\"")? + lt + 6;
            (text.as_bytes()[at] != b'"').then(|| {
                let len = text[at..].chars().next().unwrap().len_utf8();
                (replace_at(at, len, &c.to_string()), MARK_SPAN)
            })
        }
        1 => Some((replace_at(gt, 0, " z=\"9\""), MARK_SPAN)),
        2 => text[..gt].ends_with(" z=\"1\"").then(|| (replace_at(gt - 6, 6, ""), MARK_SPAN)),
        3 => Some((replace_at(lt + 6, 0, " y=\"9\""), MARK_SPAN)),
        4 => (lt >= 2 && text.as_bytes()[lt - 1] == b' ' && !text[..lt - 1].ends_with(' ')).then(|| (replace_at(lt - 1, 1, &c.to_string()), MARK_COMMENT)),
        5 => text[gt + 1..].starts_with(" n").then(|| (replace_at(gt + 1, 1, &c.to_string()), MARK_COMMENT)),
        6 => {
            let note = text[gt..].find("note")? + gt;
            Some((replace_at(note + 3, 1, &c.to_string()), MARK_COMMENT))
        }
        7 => {
            let close = ["*/", "-->"].iter().filter_map(|d| text[gt..].find(d).map(|i| i + gt + d.len())).min()?;
            // Content on the tag's own line: replace the space after the comment by a TAB (still
            // valid code, and the TAB occurs nowhere else).
            text[close..].starts_with(' ').then(|| (replace_at(close, 1, "\t"), MARK_CONTENT))
        }
        _ => None,
    }
}

/// Byte offset of the `>` that ends the start tag beginning at `lt` (quotes are honoured).
pub fn tag_end(text: &str, lt: usize) -> Option<usize> {
    let mut quote: Option<char> = None;
    for (i, c) in text[lt..].char_indices() {
        match (quote, c) {
            (None, '"') | (None, '\'') => quote = Some(c),
            (Some(q), c) if q == c => quote = None,
            (None, '>') => return Some(lt + i),
            _ => {}
        }
    }
    None
}

/// Character-level edits of tag lines applicable to `files`.
pub fn tag_char_edits(files: &[LFile]) -> Vec<Edit> {
    let mut v = Vec::new();
    for (fi, f) in files.iter().enumerate() {
        for (idx, l) in f.lines.iter().enumerate() {
            if matches!(l.label, Label::Start(_, true) | Label::End(_)) {
                for kind in 0..TAG_CHAR_KINDS {
                    if tag_char_edit(&l.text, kind, 0).is_some_and(|(t, _)| t != l.text) {
                        v.push(Edit::TagChar { file: fi, idx, kind });
                    }
                }
            }
        }
    }
    v
}

/// The label of a line inserted before index `pos`.
fn inserted_label(f: &LFile, pos: usize) -> Label {
    let prev = pos.checked_sub(1).map(|i| &f.lines[i].label);
    let next = f.lines.get(pos).map(|l| &l.label);
    if let (Some(Label::Start(a, _)), Some(Label::Start(b, _))) = (prev, next) {
        if a == b {
            return Label::Start(*a, false);
        }
    }
    if let (Some(Label::End(a)), Some(Label::End(b))) = (prev, next) {
        if a == b {
            return Label::End(*a);
        }
    }
    // Inside a block iff some block's start comment is complete before `pos` and its end comment
    // starts at or after `pos`.
    let line = pos + 1; // the inserted line's number
    let inside = f.spans().iter().any(|(_, _, s2, e1, _)| *s2 < line && line <= *e1);
    if inside { Label::Content } else { Label::Outside }
}

/// Applies `edit`; `counter` makes fresh texts unique.
pub fn apply(files: &[LFile], edit: &Edit, counter: usize) -> Vec<LFile> {
    let mut files = files.to_vec();
    match edit {
        Edit::Ins { file, pos, dup } => {
            let f = &mut files[*file];
            let label = inserted_label(f, *pos);
            let text = if *dup {
                f.lines[*pos - 1].text.clone()
            } else if matches!(label, Label::Start(..) | Label::End(_)) {
                format!("ins{counter}")
            } else {
                f.fresh.replace("{}", &format!("ins{counter}"))
            };
            f.lines.insert(*pos, LLine { text, label, marks: 0 });
        }
        Edit::Del { file, idx } => {
            files[*file].lines.remove(*idx);
        }
        Edit::FlipEol { file } => {
            files[*file].crlf = !files[*file].crlf;
        }
        Edit::TagChar { file, idx, kind } => {
            let l = &mut files[*file].lines[*idx];
            if let Some((text, mark)) = tag_char_edit(&l.text, *kind, counter) {
                l.text = text;
                l.marks |= mark;
            }
        }
        Edit::Rep { file, idx, variant } => {
            let f = &mut files[*file];
            let fresh = f.fresh;
            let l = &mut f.lines[*idx];
            match (&l.label, variant) {
                (Label::Content | Label::Outside, 2) => l.text = String::new(),
                (Label::Content | Label::Outside, _) => l.text = fresh.replace("{}", &format!("rep{counter}")),
                (Label::Start(_, true), 1) => {
                    // Attribute edit inside the tag: set x="<counter>".
                    // (a line of a multi-line tag without `>` gets the attribute at its end)
                    let start = l.text.find("<block").unwrap_or(0);
                    let gt = l.text[start..].find('>').map(|i| i + start).unwrap_or(l.text.len());
                    let head = match l.text.find(" x=\"") {
                        Some(at) => l.text[..at].to_string(),
                        None => l.text[..gt].to_string(),
                    };
                    l.text = format!("{head} x=\"{counter}\"{}", &l.text[gt..]);
                }
                _ => {
                    // Text inside the comment right after the tag (`>` of the start tag, or the end
                    // tag); an earlier note is replaced.
                    let at = match l.text.find("</block>") {
                        Some(i) => i + 8,
                        None => {
                            let lt = l.text.find("<block").unwrap_or(0);
                            lt + l.text[lt..].find('>').expect("tag line has >") + 1
                        }
                    };
                    let mut rest = l.text[at..].to_string();
                    if let Some(stripped) = rest.strip_prefix(" note") {
                        let end = stripped.find(|c: char| !c.is_ascii_digit()).unwrap_or(stripped.len());
                        rest = stripped[end..].to_string();
                    }
                    l.text = format!("{} note{counter}{rest}", &l.text[..at]);
                }
            }
        }
    }
    files
}

/// One file section of a unified diff.
#[derive(Clone, Debug, Default)]
pub struct FileDiff {
    pub old_path: Option<String>,
    pub new_path: Option<String>,
    /// 1-based old-file line numbers of `-` lines.
    pub minus: Vec<usize>,
    /// 1-based new-file line numbers of `+` lines.
    pub plus: Vec<usize>,
    /// Change groups in order: a maximal run of `-` lines followed by a maximal run of `+` lines.
    pub groups: Vec<(Vec<usize>, Vec<usize>)>,
}

/// Reads a unified diff using the `@@ -a,b +c,d @@` counts only, so payload lines that look like
/// headers cannot confuse it. Independent of the `unidiff` crate.
pub fn read_diff(diff: &str) -> Result<Vec<FileDiff>, String> {
    let lines: Vec<&str> = diff.split('\n').collect();
    let mut out: Vec<FileDiff> = Vec::new();
    let mut i = 0;
    let path = |s: &str, prefix: &str| -> Option<String> {
        let s = s.strip_suffix('\t').unwrap_or(s);
        if s == "/dev/null" { None } else { Some(s.strip_prefix(prefix).unwrap_or(s).to_string()) }
    };
    while i < lines.len() {
        let l = lines[i];
        if l.starts_with("diff --git ") {
            out.push(FileDiff::default());
            i += 1;
            continue;
        }
        if let Some(rest) = l.strip_prefix("--- ") {
            if let Some(cur) = out.last_mut() {
                if lines.get(i + 1).is_some_and(|n| n.starts_with("+++ ")) {
                    cur.old_path = path(rest, "a/");
                    cur.new_path = path(&lines[i + 1][4..], "b/");
                    i += 2;
                    continue;
                }
            }
        }
        if let Some(rest) = l.strip_prefix("rename to ") {
            if let Some(cur) = out.last_mut() {
                cur.new_path.get_or_insert_with(|| rest.to_string());
            }
        }
        if let Some(rest) = l.strip_prefix("rename from ") {
            if let Some(cur) = out.last_mut() {
                cur.old_path.get_or_insert_with(|| rest.to_string());
            }
        }
        if l.starts_with("@@ -") {
            let header = l[4..].split(" @@").next().ok_or("bad hunk header")?;
            let (old, new) = header.split_once(" +").ok_or("bad hunk header")?;
            let parse = |s: &str| -> Result<(usize, usize), String> {
                let (a, b) = match s.split_once(',') {
                    Some((a, b)) => (a, b),
                    None => (s, "1"),
                };
                Ok((a.parse().map_err(|_| format!("bad number in {l}"))?, b.parse().map_err(|_| format!("bad number in {l}"))?))
            };
            let (old_start, old_len) = parse(old)?;
            let (new_start, new_len) = parse(new)?;
            let cur = out.last_mut().ok_or("hunk before file header")?;
            let (mut o, mut n) = (0usize, 0usize);
            let mut group: (Vec<usize>, Vec<usize>) = (Vec::new(), Vec::new());
            i += 1;
            while (o < old_len || n < new_len) && i < lines.len() {
                let h = lines[i];
                match h.as_bytes().first() {
                    Some(b' ') | None => {
                        if !group.0.is_empty() || !group.1.is_empty() {
                            cur.groups.push(std::mem::take(&mut group));
                        }
                        o += 1;
                        n += 1;
                    }
                    Some(b'-') => {
                        if !group.1.is_empty() {
                            cur.groups.push(std::mem::take(&mut group));
                        }
                        cur.minus.push(old_start + o);
                        group.0.push(old_start + o);
                        o += 1;
                    }
                    Some(b'+') => {
                        cur.plus.push(new_start + n);
                        group.1.push(new_start + n);
                        n += 1;
                    }
                    Some(b'\\') => {}
                    _ => return Err(format!("unexpected hunk line {h:?}")),
                }
                i += 1;
            }
            if !group.0.is_empty() || !group.1.is_empty() {
                cur.groups.push(group);
            }
            // A pure insertion/deletion hunk at line 0 reports start 0; positions are then 1-based
            // already because counting starts at start+0 with start = 0 only when len = 0.
            let _ = (old_start, new_start);
            continue;
        }
        i += 1;
    }
    Ok(out)
}

/// Real git diff old→new for a set of files.
pub fn git_diff(pair: &TreePair, old: &[LFile], new: &[LFile], context: usize) -> Result<String, String> {
    for f in old {
        pair.set_old(f.name, &f.text());
    }
    for f in new {
        pair.set_new(f.name, &f.text());
    }
    pair.diff(context, &[])
}
