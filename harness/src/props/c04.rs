//! C04: no crash or hang on any input. E1 token-soup search per grammar plus the exhaustive
//! one-mutation neighbourhood of seed sources, in scan and diff mode; hostile-but-real git diffs.
//! Panics are caught in-process; aborts and hangs are contained by the supervisor in main.rs
//! (the exploration runs in a child process that records the case each thread is working on).

use crate::cli::{self, TreePair};
use crate::core::{self, Cfg, Report, Sink, Tier};
use crate::engine::{self, Grid, Sequences};
use crate::librun::{self, Input, Outcome};
use crate::props::c03;
use crate::props::langkit::{Kit, Layout, Seg, Tags, KITS};
use crate::props::rules::first_line;
use serde_json::{Value, json};
use std::sync::Arc;

const RICH: &str = "<block name=\"n\" affects=\":m\" keep-sorted keep-unique line-pattern=\"^x\" line-count=\"<1\">";

fn tokens(kit: &Kit) -> Vec<&'static str> {
    let mut t: Vec<&'static str> = vec!["\n", "<block", "</block>", ">", " name=\"", "\"", RICH, "\u{a0}", "é\u{301}", "😀", "<", "\r"];
    let mut add = |s: &'static str| {
        if !t.contains(&s) {
            t.push(s);
        }
    };
    for f in kit.forms {
        add(f.open);
        if !f.close.is_empty() {
            add(f.close.trim());
        }
    }
    match kit.grammar {
        "markdown" => {
            add("[//]:");
            add(" # ");
            add("(");
            add(")");
            add("'");
            add("--!>");
        }
        "html" | "xml" => {
            add("--!>");
            add("--");
            add("<![CDATA[");
        }
        "python" | "ruby" | "bash" | "toml" | "yaml" | "makefile" => {
            add("\t");
            add("'''");
            add("\\");
        }
        _ => {
            add("*");
            add("/");
            add("'");
        }
    }
    t
}

fn judge(outcome: &Outcome, what: &str, grammar: &str, text: &str, input: &Value, sink: &Sink) {
    match outcome {
        Outcome::Panic { message } => {
            sink.outcome(format!("{grammar}:{what}:panic"));
            sink.fail(format!("C04:panic:{}:{}", grammar_family(grammar), panic_site(message)), format!("{what}: panic: {message}\n--- input ---\n{text:?}"), input.clone());
        }
        // A panic caught at a thread join surfaces as an "error" carrying the panic payload's
        // debug form: not a readable error but a crash in disguise.
        Outcome::Error { stage, message, .. } if message.contains("Any {") || message.contains("panicked") => {
            sink.outcome(format!("{grammar}:{what}:panic-behind-error"));
            sink.fail(format!("C04:panic-behind-error:{}:{stage}", grammar_family(grammar)), format!("{what}: the run failed with the payload of a panic instead of a readable error: {}\n--- input ---\n{text:?}", first_line(message)), input.clone());
        }
        Outcome::Error { stage, .. } => sink.outcome(format!("{grammar}:{what}:error-{stage}")),
        Outcome::Report { blocks, diags } => sink.outcome(format!("{grammar}:{what}:report:{}:{}", blocks.len().min(2), diags.len().min(2))),
    }
}

/// The panic message with its input-dependent parts (quoted text, numbers) removed, so that one
/// panic site gives one fingerprint.
fn panic_site(message: &str) -> String {
    let line = first_line(message);
    let mut out = String::new();
    let mut in_tick = false;
    for c in line.chars() {
        if c == '`' {
            in_tick = !in_tick;
            if !in_tick {
                out.push_str("`…`");
            }
            continue;
        }
        if in_tick {
            continue;
        }
        if c.is_ascii_digit() {
            if !out.ends_with('N') {
                out.push('N');
            }
        } else {
            out.push(c);
        }
    }
    out
}

fn grammar_family(grammar: &str) -> &str {
    grammar
}

fn exercise(file: &str, grammar: &str, text: &str, input: &Value, sink: &Sink) {
    core::slot_write(&json!({"file": file, "text": text}).to_string());
    sink.execs(3);
    let scan = librun::run(&Input { files: vec![(file.to_string(), text.to_string())], ..Default::default() });
    judge(&scan, "scan", grammar, text, input, sink);
    let list = librun::run(&Input { files: vec![(file.to_string(), text.to_string())], list_only: true, ..Default::default() });
    judge(&list, "list", grammar, text, input, sink);
    let diff = librun::run(&Input { files: vec![(file.to_string(), text.to_string())], diff: Some(cli::new_file_diff(file, text)), ..Default::default() });
    judge(&diff, "diff", grammar, text, input, sink);
    core::slot_clear();
}

fn soup_check(kit: &'static Kit, toks: &[&'static str], seq: &[u8], sink: &Sink) {
    let text: String = seq.iter().map(|&i| toks[i as usize]).collect();
    let input = json!({"file": kit.files[0], "text": text});
    exercise(kit.files[0], kit.grammar, &text, &input, sink);
    if seq.len() >= 2 {
        sink.nontrivial();
    }
    if seq.len() == 4 {
        sink.sample(|| input);
    }
}

/// Content lines that are hostile to the validators rather than to the parsers.
const RULE_LINES: &[&str] = &[
    "nan", "NaN", "inf", "-inf", "1e999", "-0", "0x1F", "\u{661}\u{662}", "1_0", "", "   ", "\u{a0}", ".", "-", "+5", "9999999999999999999999999999999999999999", "é", "a\u{301}", "1 2", "\t3", "末尾中",
];
const RULE_TAGS: &[&str] = &[
    "keep-sorted keep-sorted-format=\"numeric\"",
    "keep-sorted=\"desc\" keep-sorted-format=\"numeric\" keep-sorted-pattern=\"(?P<value>\\S*)\"",
    "keep-sorted keep-sorted-pattern=\"\\S*$\"",
    "keep-unique=\"(?P<value>\\S*)\"",
    "keep-unique",
    "line-pattern=\"^\\p{L}*$\"",
    "line-count=\">=0\"",
    "check-lua=\"{lua}\"",
];

/// A healthy script for the rule-content soups.
fn soup_script() -> &'static str {
    static S: std::sync::OnceLock<(crate::cli::Scratch, String)> = std::sync::OnceLock::new();
    &S.get_or_init(|| {
        let s = crate::cli::Scratch::new("c04lua");
        s.write("ok.lua", "function validate(ctx, content)\n  return nil\nend\n");
        let p = s.path("ok.lua").display().to_string();
        (s, p)
    })
    .1
}

fn rule_soup_check(seq: &[u8], sink: &Sink) {
    let lines: Vec<&str> = seq.iter().map(|&i| RULE_LINES[i as usize]).collect();
    for (ti, tag) in RULE_TAGS.iter().enumerate() {
        // A rule-less block comes first, the block under test second; with and without a byte
        // order mark at the start of the file.
        for bom in ["", "\u{feff}"] {
            let mut text = format!("{bom}# <block name=\"plain\">\nplain = 0\n# </block>\n# <block {}>\n", tag.replace("{lua}", soup_script()));
            for l in &lines {
                text.push_str(l);
                text.push('\n');
            }
            text.push_str("# </block>\n");
            let input = json!({"file": "x.py", "text": text, "rule": ti});
            core::slot_write(&json!({"file": "x.py", "text": text}).to_string());
            sink.exec();
            let scan = librun::run(&Input { files: vec![("x.py".to_string(), text.clone())], ..Default::default() });
            judge(&scan, "rule-scan", "rule-content", &text, &input, sink);
            core::slot_clear();
        }
    }
    if seq.len() >= 2 {
        sink.nontrivial();
    }
}

fn seed_for(kit: &Kit) -> String {
    let mut segs = vec![
        Seg::Comment { form: 0, layout: Layout::Noisy, tags: Tags::Open },
        Seg::Code(0),
    ];
    if !kit.decoys.is_empty() {
        segs.push(Seg::Decoy(0));
    }
    let last = (kit.forms.len() - 1) as u8;
    segs.push(Seg::Comment { form: last, layout: Layout::Bare, tags: Tags::Pair });
    segs.push(Seg::Comment { form: last, layout: Layout::Bare, tags: Tags::None });
    segs.push(Seg::Comment { form: 0, layout: Layout::Bare, tags: Tags::Close });
    c03::render(kit, &segs, false).text
}

/// Token boundaries of a seed: every position where the character class changes.
fn boundaries(seed: &str) -> Vec<usize> {
    let class = |c: char| if c.is_alphanumeric() { 0 } else if c.is_whitespace() { 1 } else { 2 };
    let mut v = vec![0];
    let mut prev: Option<char> = None;
    for (i, c) in seed.char_indices() {
        if let Some(p) = prev {
            if class(p) != class(c) || class(c) == 2 {
                v.push(i);
            }
        }
        prev = Some(c);
    }
    v.push(seed.len());
    v.dedup();
    v
}

#[derive(Clone, Debug, PartialEq, Eq, Hash)]
struct Mutation {
    kit: usize,
    file: usize,
    /// (boundary index, token index or usize::MAX for deletion of the seed token that starts there, replace?)
    edits: Vec<(usize, usize, bool)>,
}

fn apply(seed: &str, bounds: &[usize], toks: &[&str], edits: &[(usize, usize, bool)]) -> String {
    // Apply from the right so earlier offsets stay valid.
    let mut edits = edits.to_vec();
    edits.sort_by(|a, b| b.0.cmp(&a.0));
    let mut text = seed.to_string();
    for (b, t, replace) in edits {
        let at = bounds[b];
        let next = bounds.get(b + 1).copied().unwrap_or(seed.len());
        if t == usize::MAX {
            text.replace_range(at..next.min(text.len()).max(at), "");
        } else if replace {
            text.replace_range(at..next.min(text.len()).max(at), toks[t]);
        } else {
            text.insert_str(at, toks[t]);
        }
    }
    text
}

fn mutation_check(m: &Mutation, sink: &Sink) {
    let kit = &KITS[m.kit];
    let file = kit.files[m.file];
    let seed = seed_for(kit);
    let bounds = boundaries(&seed);
    let toks = tokens(kit);
    let text = apply(&seed, &bounds, &toks, &m.edits);
    let input = json!({"file": file, "text": text});
    exercise(file, kit.grammar, &text, &input, sink);
    sink.nontrivial();
}

const HOSTILE_LINES: &[&str] = &["x", "-- y", "++ z", "@@ -1 +1 @@", "diff --git a/x.py b/x.py", "# <block name=\"a\" affects=\":b\">", "# </block>", "\\ No newline at end of file", "--- a/x.py", "+++ b/x.py", "", " ", "é≤😀 x", "\t# <block>"];

fn hostile_check(pair: &(Vec<u8>, Vec<u8>, bool, u8), sink: &Sink) {
    let (old, new, trailing_newline, context) = pair;
    let render = |seq: &[u8]| {
        let mut s = seq.iter().map(|&i| HOSTILE_LINES[i as usize]).collect::<Vec<_>>().join("\n");
        if *trailing_newline && !seq.is_empty() {
            s.push('\n');
        }
        s
    };
    let (old_text, new_text) = (render(old), render(new));
    thread_local! { static PAIR: TreePair = TreePair::new("c04"); }
    let diff = PAIR.with(|p| {
        p.set_old("x.py", &old_text);
        p.set_new("x.py", &new_text);
        p.diff(*context as usize, &[])
    });
    let diff = match diff {
        Ok(d) => d,
        Err(e) => {
            sink.machinery(e);
            return;
        }
    };
    let input = json!({"old": old_text, "new": new_text, "context": context, "diff": diff});
    core::slot_write(&input.to_string());
    sink.exec();
    let outcome = librun::run(&Input { files: vec![("x.py".into(), new_text.clone())], diff: Some(diff.clone()), ..Default::default() });
    judge(&outcome, "git-diff", "hostile-diff", &diff, &input, sink);
    core::slot_clear();
    if !diff.is_empty() {
        sink.nontrivial();
    }
    if old.len() + new.len() == 3 {
        sink.sample(|| input);
    }
}

/// A deterministic pseudo-random line of `len` bytes over identifier and punctuation characters.
fn long_line(len: usize, seed: u64) -> String {
    const CHARS: &[u8] = b"abcdefghijklmnopqrstuvwxyz(){};=,. ";
    let mut x = seed.wrapping_mul(6364136223846793005).wrapping_add(1442695040888963407);
    (0..len)
        .map(|_| {
            x = x.wrapping_mul(6364136223846793005).wrapping_add(1442695040888963407);
            CHARS[((x >> 33) % CHARS.len() as u64) as usize] as char
        })
        .collect()
}

/// One very long line modified by the diff (a regenerated minified or generated file): (length,
/// kind, file). Kinds: 0 rewritten entirely, 1 one character changed in the middle, 2 shortened
/// to a few characters, 3 grown from a few characters. Files: a supported one holding a block
/// around the line, and a name blockwatch has no grammar for (its diff is read all the same).
fn long_line_check(case: &(usize, u8, u8), sink: &Sink) {
    let (len, kind, file_kind) = *case;
    let a = long_line(len, 1);
    let (old_line, new_line) = match kind {
        0 => (a.clone(), long_line(len, 2)),
        1 => {
            let mut b = a.clone().into_bytes();
            b[len / 2] = if b[len / 2] == b'q' { b'z' } else { b'q' };
            (a.clone(), String::from_utf8(b).expect("ascii"))
        }
        2 => (a.clone(), "short;".to_string()),
        _ => ("short;".to_string(), a.clone()),
    };
    let file = if file_kind == 0 { "x.js" } else { "bundle.min.data" };
    let new_text = format!("// <block name=\"b\" keep-sorted>\n{new_line}\n// </block>\n");
    let diff = format!("diff --git a/{file} b/{file}\nindex 1111111..2222222 100644\n--- a/{file}\n+++ b/{file}\n@@ -1,3 +1,3 @@\n // <block name=\"b\" keep-sorted>\n-{old_line}\n+{new_line}\n // </block>\n");
    let input = json!({"long_line": [len, kind, file_kind]});
    core::slot_write(&input.to_string());
    sink.exec();
    let outcome = librun::run(&Input { files: vec![(file.to_string(), new_text)], diff: Some(diff), ..Default::default() });
    judge(&outcome, "long-line-diff", "long-line", &format!("{file}: one line of {len} bytes, kind {kind}"), &input, sink);
    core::slot_clear();
    sink.nontrivial();
}

/// Deeply nested, well-formed source between two tag comments: (kit index, construct, depth).
/// Through the real binary, one process per run: a crash inside a third-party grammar cannot be
/// caught in-process, and the exploration must go on after it.
fn deep_nesting_check(cfg: &Cfg, case: &(usize, u8, usize), sink: &Sink) {
    let (ki, construct, depth) = *case;
    let kit = &KITS[ki];
    let (open, close, what) = match (kit.grammar, construct) {
        ("html" | "xml", _) => ("<a>", "</a>", "elements"),
        ("markdown", 0) => ("> ", "", "block-quotes"),
        (_, 0) => ("(", ")", "parentheses"),
        (_, 1) => ("[", "]", "brackets"),
        _ => ("{", "}", "braces"),
    };
    let form = kit.forms[0];
    let comment = |inner: &str| match form.kind {
        crate::props::langkit::FormKind::Md => format!("[//]: # {}{inner}{}", form.open, form.close),
        _ if form.close.is_empty() => format!("{} {inner}", form.open),
        _ => format!("{} {inner} {}", form.open, form.close),
    };
    let sep = if kit.blank_between { "\n\n" } else { "\n" };
    let text = format!("{}{}{sep}{}x{}{sep}{}{sep}{}", kit.prologue, comment("<block name=\"deep\">"), open.repeat(depth), close.repeat(depth), comment("</block>"), kit.epilogue);
    let input = json!({"deep_nesting": [ki, construct, depth]});
    let file = kit.files[0];
    thread_local! { static REPO: crate::cli::Scratch = crate::cli::Scratch::repo("c04deep"); }
    REPO.with(|repo| {
        repo.clear();
        repo.write(file, &text);
        let diff = cli::new_file_diff(file, &text);
        let depth_class = if depth < 1_000 { "hundreds" } else { "tens-of-thousands" };
        for (mode, args, stdin) in [("scan", vec![], None), ("list", vec!["list"], None), ("diff", vec![], Some(diff.as_str()))] {
            sink.exec();
            let run = cli::blockwatch(&cfg.bin, &repo.dir, &args, stdin, &[], core::HANG_LIMIT_S as u32);
            let describe = format!("{file}: {depth} nested {what} between two tag comments, {mode} mode: {}", run.summary().to_string().chars().take(400).collect::<String>());
            if run.timed_out {
                sink.outcome(format!("deep:{}:{what}:hang", kit.grammar));
                sink.fail(format!("C04:hang:deep-nesting:{}:{what}:{depth_class}", kit.grammar), describe, input.clone());
                break; // the other modes would only wait as long
            } else if run.panicked() || !matches!(run.code, Some(0) | Some(1)) {
                sink.outcome(format!("deep:{}:{what}:crash", kit.grammar));
                sink.fail(format!("C04:crash:deep-nesting:{}:{what}:{depth_class}", kit.grammar), describe, input.clone());
            } else {
                sink.outcome(format!("deep:{}:{what}:{:?}", kit.grammar, run.code));
            }
        }
    });
    sink.nontrivial();
}

pub fn run(cfg: &Cfg, sink: &Arc<Sink>) -> Report {
    let mut report = Report::new("(1) token soups: every sequence of ≤3 (thorough ≤4) tokens, and one token longer over the core tokens (delimiters, tag fragments, newline, quote), over the grammar's comment delimiters, tag fragments, a rule-laden start tag, quotes, newline, NBSP, combining mark and emoji, per grammar, run in scan mode (parse + all validators), list mode and diff mode (all-lines-added diff); (2) every single-token insertion, deletion and replacement at every token boundary of a seed file per registered suffix (thorough: every pair of insertions); (3) real git diffs between every pair of ≤2-line files over lines that look like diff syntax; (4) validator-hostile content lines under 7 rule configurations; (5) diffs that modify one very long line; (6) deeply nested well-formed source per grammar; oracle: the run returns a report or an error — no panic, abort or hang (10 s watchdog per case, in the supervisor); non-trivial = soups of ≥2 tokens, every mutation, every non-empty diff");
    report.assume("aborts and hangs are detected by the supervisor process (main.rs) which replays the cases the dead child was working on");
    let soup_len = cfg.tier.pick(3, 4);
    for kit in KITS {
        let toks = tokens(kit);
        let n = toks.len();
        let toks2 = toks.clone();
        report.phase(engine::explore(
            &format!("soup {} ({})", kit.grammar, kit.files[0]),
            &format!("all token sequences of length ≤{soup_len} over {n} tokens × {{scan, list, diff}}"),
            Sequences { alphabet: n as u8, max_len: soup_len, check: move |seq: &[u8], sink: &Sink| soup_check(kit, &toks2, seq, sink) },
            sink,
            cfg.threads,
            cfg.tier == Tier::Thorough,
        ));
        // One token longer over the core tokens: newline, tag fragments, the rule-laden tag and
        // the grammar's own comment delimiters.
        let core_toks: Vec<&'static str> = toks.iter().copied().filter(|t| ["\n", "<block", "</block>", ">", RICH, "\""].contains(t) || kit.forms.iter().any(|f| f.open == *t || f.close.trim() == *t) || ["[//]:", " # ", "(", ")", "*", "/"].contains(t)).collect();
        let n = core_toks.len();
        report.phase(engine::explore(
            &format!("core soup {} ({})", kit.grammar, kit.files[0]),
            &format!("all token sequences of length ≤{} over the {n} core tokens × {{scan, list, diff}}", soup_len + 1),
            Sequences { alphabet: n as u8, max_len: soup_len + 1, check: move |seq: &[u8], sink: &Sink| soup_check(kit, &core_toks, seq, sink) },
            sink,
            cfg.threads,
            cfg.tier == Tier::Thorough,
        ));
    }
    // Content hostile to the validators.
    let rule_len = cfg.tier.pick(3, 4);
    report.phase(engine::explore(
        "rule-content soups",
        &format!("all sequences of ≤{rule_len} content lines over {} validator-hostile lines (nan, inf, overflow, signed zero, non-ASCII digits, blanks, combining marks, …) × {} rule configurations, scan mode", RULE_LINES.len(), RULE_TAGS.len()),
        Sequences { alphabet: RULE_LINES.len() as u8, max_len: rule_len, check: |seq: &[u8], sink: &Sink| rule_soup_check(seq, sink) },
        sink,
        cfg.threads,
        false,
    ));
    // One-mutation (thorough: two-insertion) neighbourhoods of the seeds.
    let mut cases = Vec::new();
    for (ki, kit) in KITS.iter().enumerate() {
        let seed = seed_for(kit);
        let nb = boundaries(&seed).len();
        let nt = tokens(kit).len();
        for fi in 0..kit.files.len() {
            for b in 0..nb {
                cases.push(Mutation { kit: ki, file: fi, edits: vec![(b, usize::MAX, false)] });
                for t in 0..nt {
                    cases.push(Mutation { kit: ki, file: fi, edits: vec![(b, t, false)] });
                    cases.push(Mutation { kit: ki, file: fi, edits: vec![(b, t, true)] });
                }
            }
            if cfg.tier == Tier::Thorough && fi == 0 {
                // Two simultaneous insertions of the delimiter tokens (the first 6 + form tokens).
                for b1 in 0..nb {
                    for b2 in b1..nb {
                        for t1 in 0..nt {
                            for t2 in 0..nt.min(8) {
                                cases.push(Mutation { kit: ki, file: fi, edits: vec![(b1, t1, false), (b2, t2, false)] });
                            }
                        }
                    }
                }
            }
        }
    }
    let n = cases.len();
    report.phase(engine::explore(
        "seed mutations",
        &format!("{n} mutated seeds: every boundary × every token × {{insert, replace}} + deletions, for all 39 suffixes{}", cfg.tier.pick("", "; plus every pair of insertions on the representative file of each grammar")),
        Grid { cases, check: |m: &Mutation, s: &Sink| mutation_check(m, s) },
        sink,
        cfg.threads,
        true,
    ));
    // Deep nesting.
    let mut cases = Vec::new();
    for (ki, kit) in KITS.iter().enumerate() {
        for construct in 0..3u8 {
            // HTML and XML nest elements whatever the construct.
            if matches!(kit.grammar, "html" | "xml") && construct > 0 {
                continue;
            }
            for depth in cfg.tier.pick(vec![300usize, 60_000], vec![300, 60_000, 300_000]) {
                // tree-sitter-html/-xml need more than the time limit at such depths (a known
                // finding): those runs wait for the limit, so they belong to the thorough tier.
                if matches!(kit.grammar, "html" | "xml") && depth > 300 && cfg.tier == Tier::Quick {
                    continue;
                }
                if matches!(kit.grammar, "html" | "xml") && depth > 60_000 {
                    continue;
                }
                cases.push((ki, construct, depth));
            }
        }
    }
    let n = cases.len();
    report.phase(engine::explore(
        "deeply nested source",
        &format!("{n} files: per grammar 300 and 60 000{} nested parentheses / brackets / braces (elements in HTML and XML, block quotes in Markdown) between two tag comments × {{scan, list, diff}} through the real binary, one process per run", cfg.tier.pick("", " and 300 000")),
        Grid { cases, check: { let cfg = cfg.clone(); move |c: &(usize, u8, usize), s: &Sink| deep_nesting_check(&cfg, c, s) } },
        sink,
        cfg.threads,
        false,
    ));
    // Very long modified lines.
    let mut cases = Vec::new();
    for len in cfg.tier.pick(vec![3_000usize, 60_000], vec![3_000, 60_000, 400_000]) {
        for kind in 0..4u8 {
            for file_kind in 0..2u8 {
                cases.push((len, kind, file_kind));
            }
        }
    }
    let n = cases.len();
    report.phase(engine::explore(
        "very long modified lines",
        &format!("{n} diffs modifying one line of 3 000 / 60 000{} bytes (rewritten, one character changed, shortened, grown) in a supported file and in a file without grammar", cfg.tier.pick("", " / 400 000")),
        Grid { cases, check: |c: &(usize, u8, u8), s: &Sink| long_line_check(c, s) },
        sink,
        cfg.threads,
        false,
    ));
    // Hostile real git diffs.
    let max = cfg.tier.pick(2usize, 3usize);
    let mut seqs: Vec<Vec<u8>> = vec![vec![]];
    let mut frontier: Vec<Vec<u8>> = vec![vec![]];
    for _ in 0..max {
        let mut next = Vec::new();
        for s in &frontier {
            for a in 0..HOSTILE_LINES.len() as u8 {
                let mut t = s.clone();
                t.push(a);
                next.push(t);
            }
        }
        seqs.extend(next.iter().cloned());
        frontier = next;
    }
    let mut pairs = Vec::new();
    for old in &seqs {
        for new in &seqs {
            if old.len() + new.len() > max + 1 {
                continue;
            }
            for nl in [true, false] {
                for ctx in [0u8, 3] {
                    pairs.push((old.clone(), new.clone(), nl, ctx));
                }
            }
        }
    }
    let n = pairs.len();
    report.phase(engine::explore(
        "hostile git diffs",
        &format!("{n} real `git diff` outputs: old/new files of ≤{max} lines (≤{} lines together) over {} diff-syntax look-alike lines × trailing newline or not × -U0/-U3", max + 1, HOSTILE_LINES.len()),
        Grid { cases: pairs, check: |p: &(Vec<u8>, Vec<u8>, bool, u8), s: &Sink| hostile_check(p, s) },
        sink,
        cfg.threads,
        false,
    ));
    report
}

pub fn replay(_cfg: &Cfg, input: &Value, sink: &Arc<Sink>) {
    if let Some(c) = input.get("deep_nesting").and_then(Value::as_array) {
        let n = |i: usize| c.get(i).and_then(Value::as_u64).unwrap_or(0);
        deep_nesting_check(_cfg, &(n(0) as usize, n(1) as u8, n(2) as usize), sink);
        return;
    }
    if let Some(c) = input.get("long_line").and_then(Value::as_array) {
        let n = |i: usize| c.get(i).and_then(Value::as_u64).unwrap_or(0);
        long_line_check(&(n(0) as usize, n(1) as u8, n(2) as u8), sink);
        return;
    }
    if let Some(diff) = input.get("diff").and_then(Value::as_str) {
        let new_text = input["new"].as_str().unwrap_or("").to_string();
        sink.exec();
        let outcome = librun::run(&Input { files: vec![("x.py".into(), new_text)], diff: Some(diff.to_string()), ..Default::default() });
        judge(&outcome, "git-diff", "hostile-diff", diff, input, sink);
        return;
    }
    let file = input["file"].as_str().unwrap_or("x.py").to_string();
    let text = input["text"].as_str().unwrap_or("").to_string();
    let grammar = KITS.iter().find(|k| k.files.contains(&file.as_str())).map(|k| k.grammar).unwrap_or("unknown");
    exercise(&file, grammar, &text, input, sink);
}
