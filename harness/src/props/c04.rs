//! C04: no crash or hang on any input. E1 token-soup search per grammar plus the exhaustive
//! one-mutation neighbourhood of seed sources, in scan and diff mode; hostile-but-real git diffs.
//! Panics are caught in-process; aborts and hangs are contained by the supervisor in main.rs
//! (the exploration runs in a child process that records the case each thread is working on).

use crate::cli::{self, TreePair};
use crate::core::{self, Cfg, Report, Sink, Tier};
use crate::engine::{self, Grid, Sequences};
use crate::librun::{self, Input, Outcome};
use crate::props::c03;
use crate::props::langkit::{Kit, Layout, Seg, Tags, KITS};
use crate::props::rules::first_line;
use serde_json::{Value, json};
use std::sync::Arc;

const RICH: &str = "<block name=\"n\" affects=\":m\" keep-sorted keep-unique line-pattern=\"^x\" line-count=\"<1\">";

fn tokens(kit: &Kit) -> Vec<&'static str> {
    let mut t: Vec<&'static str> = vec!["\n", "<block", "</block>", ">", " name=\"", "\"", RICH, "\u{a0}", "é\u{301}", "😀", "<", "\r"];
    let mut add = |s: &'static str| {
        if !t.contains(&s) {
            t.push(s);
        }
    };
    for f in kit.forms {
        add(f.open);
        if !f.close.is_empty() {
            add(f.close.trim());
        }
    }
    match kit.grammar {
        "markdown" => {
            add("[//]:");
            add(" # ");
            add("(");
            add(")");
            add("'");
            add("--!>");
        }
        "html" | "xml" => {
            add("--!>");
            add("--");
            add("<![CDATA[");
        }
        "python" | "ruby" | "bash" | "toml" | "yaml" | "makefile" => {
            add("\t");
            add("'''");
            add("\\");
        }
        _ => {
            add("*");
            add("/");
            add("'");
        }
    }
    t
}

fn judge(outcome: &Outcome, what: &str, grammar: &str, text: &str, input: &Value, sink: &Sink) {
    match outcome {
        Outcome::Panic { message } => {
            sink.outcome(format!("{grammar}:{what}:panic"));
            sink.fail(format!("C04:panic:{}:{}", grammar_family(grammar), panic_site(message)), format!("{what}: panic: {message}\n--- input ---\n{text:?}"), input.clone());
        }
        // A panic caught at a thread join surfaces as an "error" carrying the panic payload's
        // debug form: not a readable error but a crash in disguise.
        Outcome::Error { stage, message, .. } if message.contains("Any {") || message.contains("panicked at") => {
            sink.outcome(format!("{grammar}:{what}:panic-behind-error"));
            sink.fail(format!("C04:panic-behind-error:{}:{stage}", grammar_family(grammar)), format!("{what}: the run failed with the payload of a panic instead of a readable error: {}\n--- input ---\n{text:?}", first_line(message)), input.clone());
        }
        Outcome::Error { stage, .. } => sink.outcome(format!("{grammar}:{what}:error-{stage}")),
        Outcome::Report { blocks, diags } => sink.outcome(format!("{grammar}:{what}:report:{}:{}", blocks.len().min(2), diags.len().min(2))),
    }
}

/// The panic message with its input-dependent parts (quoted text, numbers) removed, so that one
/// panic site gives one fingerprint.
fn panic_site(message: &str) -> String {
    let line = first_line(message);
    let mut out = String::new();
    let mut in_tick = false;
    for c in line.chars() {
        if c == '`' {
            in_tick = !in_tick;
            if !in_tick {
                out.push_str("`…`");
            }
            continue;
        }
        if in_tick {
            continue;
        }
        if c.is_ascii_digit() {
            if !out.ends_with('N') {
                out.push('N');
            }
        } else {
            out.push(c);
        }
    }
    out
}

fn grammar_family(grammar: &str) -> &str {
    grammar
}

fn exercise(file: &str, grammar: &str, text: &str, input: &Value, sink: &Sink) {
    core::slot_write(&json!({"file": file, "text": text}).to_string());
    sink.execs(3);
    let scan = librun::run(&Input { files: vec![(file.to_string(), text.to_string())], ..Default::default() });
    judge(&scan, "scan", grammar, text, input, sink);
    let list = librun::run(&Input { files: vec![(file.to_string(), text.to_string())], list_only: true, ..Default::default() });
    judge(&list, "list", grammar, text, input, sink);
    let diff = librun::run(&Input { files: vec![(file.to_string(), text.to_string())], diff: Some(cli::new_file_diff(file, text)), ..Default::default() });
    judge(&diff, "diff", grammar, text, input, sink);
    core::slot_clear();
}

fn soup_check(kit: &'static Kit, toks: &[&'static str], seq: &[u8], sink: &Sink) {
    let text: String = seq.iter().map(|&i| toks[i as usize]).collect();
    let input = json!({"file": kit.files[0], "text": text});
    exercise(kit.files[0], kit.grammar, &text, &input, sink);
    if seq.len() >= 2 {
        sink.nontrivial();
    }
    if seq.len() == 4 {
        sink.sample(|| input);
    }
}

/// Content lines that are hostile to the validators rather than to the parsers.
const RULE_LINES: &[&str] = &[
    "nan", "NaN", "inf", "-inf", "1e999", "-0", "0x1F", "\u{661}\u{662}", "1_0", "", "   ", "\u{a0}", ".", "-", "+5", "9999999999999999999999999999999999999999", "é", "a\u{301}", "1 2", "\t3",
];
const RULE_TAGS: &[&str] = &[
    "keep-sorted keep-sorted-format=\"numeric\"",
    "keep-sorted=\"desc\" keep-sorted-format=\"numeric\" keep-sorted-pattern=\"(?P<value>\\S*)\"",
    "keep-sorted keep-sorted-pattern=\"\\S*$\"",
    "keep-unique=\"(?P<value>\\S*)\"",
    "keep-unique",
    "line-pattern=\"^\\p{L}*$\"",
    "line-count=\">=0\"",
];

fn rule_soup_check(seq: &[u8], sink: &Sink) {
    let lines: Vec<&str> = seq.iter().map(|&i| RULE_LINES[i as usize]).collect();
    for (ti, tag) in RULE_TAGS.iter().enumerate() {
        let mut text = format!("# <block {tag}>\n");
        for l in &lines {
            text.push_str(l);
            text.push('\n');
        }
        text.push_str("# </block>\n");
        let input = json!({"file": "x.py", "text": text, "rule": ti});
        core::slot_write(&json!({"file": "x.py", "text": text}).to_string());
        sink.exec();
        let scan = librun::run(&Input { files: vec![("x.py".to_string(), text.clone())], ..Default::default() });
        judge(&scan, "rule-scan", "rule-content", &text, &input, sink);
        core::slot_clear();
    }
    if seq.len() >= 2 {
        sink.nontrivial();
    }
}

fn seed_for(kit: &Kit) -> String {
    let mut segs = vec![
        Seg::Comment { form: 0, layout: Layout::Noisy, tags: Tags::Open },
        Seg::Code(0),
    ];
    if !kit.decoys.is_empty() {
        segs.push(Seg::Decoy(0));
    }
    let last = (kit.forms.len() - 1) as u8;
    segs.push(Seg::Comment { form: last, layout: Layout::Bare, tags: Tags::Pair });
    segs.push(Seg::Comment { form: last, layout: Layout::Bare, tags: Tags::None });
    segs.push(Seg::Comment { form: 0, layout: Layout::Bare, tags: Tags::Close });
    c03::render(kit, &segs, false).text
}

/// Token boundaries of a seed: every position where the character class changes.
fn boundaries(seed: &str) -> Vec<usize> {
    let class = |c: char| if c.is_alphanumeric() { 0 } else if c.is_whitespace() { 1 } else { 2 };
    let mut v = vec![0];
    let mut prev: Option<char> = None;
    for (i, c) in seed.char_indices() {
        if let Some(p) = prev {
            if class(p) != class(c) || class(c) == 2 {
                v.push(i);
            }
        }
        prev = Some(c);
    }
    v.push(seed.len());
    v.dedup();
    v
}

#[derive(Clone, Debug, PartialEq, Eq, Hash)]
struct Mutation {
    kit: usize,
    file: usize,
    /// (boundary index, token index or usize::MAX for deletion of the seed token that starts there, replace?)
    edits: Vec<(usize, usize, bool)>,
}

fn apply(seed: &str, bounds: &[usize], toks: &[&str], edits: &[(usize, usize, bool)]) -> String {
    // Apply from the right so earlier offsets stay valid.
    let mut edits = edits.to_vec();
    edits.sort_by(|a, b| b.0.cmp(&a.0));
    let mut text = seed.to_string();
    for (b, t, replace) in edits {
        let at = bounds[b];
        let next = bounds.get(b + 1).copied().unwrap_or(seed.len());
        if t == usize::MAX {
            text.replace_range(at..next.min(text.len()).max(at), "");
        } else if replace {
            text.replace_range(at..next.min(text.len()).max(at), toks[t]);
        } else {
            text.insert_str(at, toks[t]);
        }
    }
    text
}

fn mutation_check(m: &Mutation, sink: &Sink) {
    let kit = &KITS[m.kit];
    let file = kit.files[m.file];
    let seed = seed_for(kit);
    let bounds = boundaries(&seed);
    let toks = tokens(kit);
    let text = apply(&seed, &bounds, &toks, &m.edits);
    let input = json!({"file": file, "text": text});
    exercise(file, kit.grammar, &text, &input, sink);
    sink.nontrivial();
}

const HOSTILE_LINES: &[&str] = &["x", "-- y", "++ z", "@@ -1 +1 @@", "diff --git a/x.py b/x.py", "# <block name=\"a\" affects=\":b\">", "# </block>", "\\ No newline at end of file", "--- a/x.py", "+++ b/x.py", "", " ", "é≤😀 x", "\t# <block>"];

fn hostile_check(pair: &(Vec<u8>, Vec<u8>, bool, u8), sink: &Sink) {
    let (old, new, trailing_newline, context) = pair;
    let render = |seq: &[u8]| {
        let mut s = seq.iter().map(|&i| HOSTILE_LINES[i as usize]).collect::<Vec<_>>().join("\n");
        if *trailing_newline && !seq.is_empty() {
            s.push('\n');
        }
        s
    };
    let (old_text, new_text) = (render(old), render(new));
    thread_local! { static PAIR: TreePair = TreePair::new("c04"); }
    let diff = PAIR.with(|p| {
        p.set_old("x.py", &old_text);
        p.set_new("x.py", &new_text);
        p.diff(*context as usize, &[])
    });
    let diff = match diff {
        Ok(d) => d,
        Err(e) => {
            sink.machinery(e);
            return;
        }
    };
    let input = json!({"old": old_text, "new": new_text, "context": context, "diff": diff});
    core::slot_write(&input.to_string());
    sink.exec();
    let outcome = librun::run(&Input { files: vec![("x.py".into(), new_text.clone())], diff: Some(diff.clone()), ..Default::default() });
    judge(&outcome, "git-diff", "hostile-diff", &diff, &input, sink);
    core::slot_clear();
    if !diff.is_empty() {
        sink.nontrivial();
    }
    if old.len() + new.len() == 3 {
        sink.sample(|| input);
    }
}

pub fn run(cfg: &Cfg, sink: &Arc<Sink>) -> Report {
    let mut report = Report::new("(1) token soups: every sequence of ≤3 (thorough ≤4) tokens, and one token longer over the core tokens (delimiters, tag fragments, newline, quote), over the grammar's comment delimiters, tag fragments, a rule-laden start tag, quotes, newline, NBSP, combining mark and emoji, per grammar, run in scan mode (parse + all validators), list mode and diff mode (all-lines-added diff); (2) every single-token insertion, deletion and replacement at every token boundary of a seed file per registered suffix (thorough: every pair of insertions); (3) real git diffs between every pair of ≤2-line files over lines that look like diff syntax; oracle: the run returns a report or an error — no panic, abort or hang (10 s watchdog per case, in the supervisor); non-trivial = soups of ≥2 tokens, every mutation, every non-empty diff");
    report.assume("aborts and hangs are detected by the supervisor process (main.rs) which replays the cases the dead child was working on");
    let soup_len = cfg.tier.pick(3, 4);
    for kit in KITS {
        let toks = tokens(kit);
        let n = toks.len();
        let toks2 = toks.clone();
        report.phase(engine::explore(
            &format!("soup {} ({})", kit.grammar, kit.files[0]),
            &format!("all token sequences of length ≤{soup_len} over {n} tokens × {{scan, list, diff}}"),
            Sequences { alphabet: n as u8, max_len: soup_len, check: move |seq: &[u8], sink: &Sink| soup_check(kit, &toks2, seq, sink) },
            sink,
            cfg.threads,
            cfg.tier == Tier::Thorough,
        ));
        // One token longer over the core tokens: newline, tag fragments, the rule-laden tag and
        // the grammar's own comment delimiters.
        let core_toks: Vec<&'static str> = toks.iter().copied().filter(|t| ["\n", "<block", "</block>", ">", RICH, "\""].contains(t) || kit.forms.iter().any(|f| f.open == *t || f.close.trim() == *t) || ["[//]:", " # ", "(", ")", "*", "/"].contains(t)).collect();
        let n = core_toks.len();
        report.phase(engine::explore(
            &format!("core soup {} ({})", kit.grammar, kit.files[0]),
            &format!("all token sequences of length ≤{} over the {n} core tokens × {{scan, list, diff}}", soup_len + 1),
            Sequences { alphabet: n as u8, max_len: soup_len + 1, check: move |seq: &[u8], sink: &Sink| soup_check(kit, &core_toks, seq, sink) },
            sink,
            cfg.threads,
            cfg.tier == Tier::Thorough,
        ));
    }
    // Content hostile to the validators.
    let rule_len = cfg.tier.pick(3, 4);
    report.phase(engine::explore(
        "rule-content soups",
        &format!("all sequences of ≤{rule_len} content lines over {} validator-hostile lines (nan, inf, overflow, signed zero, non-ASCII digits, blanks, combining marks, …) × {} rule configurations, scan mode", RULE_LINES.len(), RULE_TAGS.len()),
        Sequences { alphabet: RULE_LINES.len() as u8, max_len: rule_len, check: |seq: &[u8], sink: &Sink| rule_soup_check(seq, sink) },
        sink,
        cfg.threads,
        false,
    ));
    // One-mutation (thorough: two-insertion) neighbourhoods of the seeds.
    let mut cases = Vec::new();
    for (ki, kit) in KITS.iter().enumerate() {
        let seed = seed_for(kit);
        let nb = boundaries(&seed).len();
        let nt = tokens(kit).len();
        for fi in 0..kit.files.len() {
            for b in 0..nb {
                cases.push(Mutation { kit: ki, file: fi, edits: vec![(b, usize::MAX, false)] });
                for t in 0..nt {
                    cases.push(Mutation { kit: ki, file: fi, edits: vec![(b, t, false)] });
                    cases.push(Mutation { kit: ki, file: fi, edits: vec![(b, t, true)] });
                }
            }
            if cfg.tier == Tier::Thorough && fi == 0 {
                // Two simultaneous insertions of the delimiter tokens (the first 6 + form tokens).
                for b1 in 0..nb {
                    for b2 in b1..nb {
                        for t1 in 0..nt {
                            for t2 in 0..nt.min(8) {
                                cases.push(Mutation { kit: ki, file: fi, edits: vec![(b1, t1, false), (b2, t2, false)] });
                            }
                        }
                    }
                }
            }
        }
    }
    let n = cases.len();
    report.phase(engine::explore(
        "seed mutations",
        &format!("{n} mutated seeds: every boundary × every token × {{insert, replace}} + deletions, for all 39 suffixes{}", cfg.tier.pick("", "; plus every pair of insertions on the representative file of each grammar")),
        Grid { cases, check: |m: &Mutation, s: &Sink| mutation_check(m, s) },
        sink,
        cfg.threads,
        true,
    ));
    // Hostile real git diffs.
    let max = cfg.tier.pick(2usize, 3usize);
    let mut seqs: Vec<Vec<u8>> = vec![vec![]];
    let mut frontier: Vec<Vec<u8>> = vec![vec![]];
    for _ in 0..max {
        let mut next = Vec::new();
        for s in &frontier {
            for a in 0..HOSTILE_LINES.len() as u8 {
                let mut t = s.clone();
                t.push(a);
                next.push(t);
            }
        }
        seqs.extend(next.iter().cloned());
        frontier = next;
    }
    let mut pairs = Vec::new();
    for old in &seqs {
        for new in &seqs {
            if old.len() + new.len() > max + 1 {
                continue;
            }
            for nl in [true, false] {
                for ctx in [0u8, 3] {
                    pairs.push((old.clone(), new.clone(), nl, ctx));
                }
            }
        }
    }
    let n = pairs.len();
    report.phase(engine::explore(
        "hostile git diffs",
        &format!("{n} real `git diff` outputs: old/new files of ≤{max} lines (≤{} lines together) over {} diff-syntax look-alike lines × trailing newline or not × -U0/-U3", max + 1, HOSTILE_LINES.len()),
        Grid { cases: pairs, check: |p: &(Vec<u8>, Vec<u8>, bool, u8), s: &Sink| hostile_check(p, s) },
        sink,
        cfg.threads,
        false,
    ));
    report
}

pub fn replay(_cfg: &Cfg, input: &Value, sink: &Arc<Sink>) {
    if let Some(diff) = input.get("diff").and_then(Value::as_str) {
        let new_text = input["new"].as_str().unwrap_or("").to_string();
        sink.exec();
        let outcome = librun::run(&Input { files: vec![("x.py".into(), new_text)], diff: Some(diff.to_string()), ..Default::default() });
        judge(&outcome, "git-diff", "hostile-diff", diff, input, sink);
        return;
    }
    let file = input["file"].as_str().unwrap_or("x.py").to_string();
    let text = input["text"].as_str().unwrap_or("").to_string();
    let grammar = KITS.iter().find(|k| k.files.contains(&file.as_str())).map(|k| k.grammar).unwrap_or("unknown");
    exercise(&file, grammar, &text, input, sink);
}
