//! C20: same input, same verdict. E2 over every source of order the harness owns — iteration order
//! of the block map, order in which files are discovered, order of the file sections of the diff,
//! order of validator thread bodies, delivery order of async results — plus every current
//! directory through the real CLI; fresh-process repetitions (hash seeds, core counts, runtime
//! workers) as a labelled sampling supplement.

use crate::cli::{self, Scratch};
use crate::core::{Cfg, Phase, Report, Sink, Tier, permutations};
use crate::e2;
use crate::engine::{self, Grid};
use crate::fakeai::FakeAi;
use crate::librun::{self, Input, Outcome};
use crate::props::c18;
use serde_json::{Value, json};
use std::sync::atomic::{AtomicU64, Ordering};
use std::sync::{Arc, Mutex};

static NONCE: AtomicU64 = AtomicU64::new(0);

pub struct Repo {
    pub name: &'static str,
    pub files: Vec<(String, String)>,
    /// File sections of the diff (one string per file), if the repository is run in diff mode.
    pub diff_sections: Option<Vec<String>>,
    pub globs: Vec<String>,
    pub list_only: bool,
    /// Only run through the real CLI (its subject lives in the binary's `main`).
    pub cli_only: bool,
}

fn rules_file(tag: &str) -> String {
    format!(
        "# <block name=\"s{tag}\" keep-sorted>\nb = 1\na = 2\n# </block>\n# <block name=\"u{tag}\" keep-unique severity=\"warning\">\nd = 1\nd = 1\n# </block>\n# <block name=\"p{tag}\" line-pattern=\"^[a-z] = \\d$\" line-count=\"<2\">\nok = 1\nq = 1\nr = 2\n# </block>\n# <block name=\"c{tag}\" keep-sorted=\"desc\" severity=\"hint\">\na = 1\nb = 2\n# </block>\n"
    )
}

pub fn catalogue(kit: &c18::Kit, nonce: &str) -> Vec<Repo> {
    let lua_string = kit.script(1);
    let lua_nil = kit.script(0);
    let lua_stateful = kit.script(8);
    let md = "# T\n\n[//]: # (<block name=\"m\" keep-sorted affects=\"x.py:sx, :n\">)\nb line\na line\n\n[//]: # (</block>)\n\n<!-- <block name=\"n\" line-count=\"<1\"> -->\ntext\n<!-- </block> -->\n".to_string();
    let affects_x = "# <block name=\"a\" affects=\"d/y.py:b, z.md:m, :missing\">\nk = 1\n# </block>\n# <block name=\"sx\" keep-unique>\nu = 1\nu = 1\n# </block>\n".to_string();
    let affects_y = "# <block name=\"b\" affects=\"x.py:a\" severity=\"warning\">\nv = 1\n# </block>\n# <block name=\"other\">\nw = 1\n# </block>\n".to_string();
    let diff_of = |files: &[(&str, &String)]| -> Vec<String> { files.iter().map(|(n, t)| cli::new_file_diff(n, t)).collect() };
    let scripted = format!(
        "# <block id=\"l1\" check-lua=\"{lua_string}\">\nv = 1\n# </block>\n# <block id=\"l2\" check-lua=\"{lua_nil}\" keep-sorted>\nb = 1\na = 1\n# </block>\n# <block id=\"a1\" check-ai=\"case={nonce}-a1;reply=not-valid; c1\" severity=\"info\">\nv = 2\n# </block>\n"
    );
    let scripted2 = format!("# <block id=\"a2\" check-ai=\"case={nonce}-a2;reply=ok-upper; c2\">\nv = 3\n# </block>\n# <block id=\"l3\" check-lua=\"{lua_string}\" line-count=\"<1\">\nv = 4\n# </block>\n# <block id=\"l4\" check-lua=\"{lua_stateful}\">\nv = 5\n# </block>\n# <block id=\"l5\" check-lua=\"{lua_stateful}\">\nv = 6\n# </block>\n");
    vec![
        Repo {
            name: "R1-rules-three-files",
            files: vec![("x.py".into(), rules_file("1")), ("d/y.py".into(), rules_file("2")), ("z.md".into(), md.clone()), ("e/w.py".into(), rules_file("3"))],
            diff_sections: None,
            globs: vec![],
            list_only: false,
            cli_only: false,
        },
        Repo {
            name: "R2-affects-diff-three-sections",
            files: vec![("x.py".into(), affects_x.clone()), ("d/y.py".into(), affects_y.clone()), ("z.md".into(), md.clone())],
            diff_sections: Some(diff_of(&[("x.py", &affects_x), ("d/y.py", &affects_y), ("z.md", &md)])),
            globs: vec![],
            list_only: false,
            cli_only: false,
        },
        Repo {
            name: "R3-diff-plus-glob",
            files: vec![("x.py".into(), affects_x.clone()), ("d/y.py".into(), affects_y.clone()), ("z.md".into(), md.clone()), ("e/w.py".into(), rules_file("3"))],
            diff_sections: Some(diff_of(&[("x.py", &affects_x), ("z.md", &md)])),
            globs: vec!["**/*.py".into()],
            list_only: false,
            cli_only: false,
        },
        Repo {
            name: "R4-lua-ai-and-sync-rules",
            files: vec![("x.py".into(), scripted), ("d/y.py".into(), scripted2), ("e/w.py".into(), rules_file("3"))],
            diff_sections: None,
            globs: vec![],
            list_only: false,
            cli_only: false,
        },
        Repo {
            name: "R5-list-with-diff",
            files: vec![("x.py".into(), affects_x.clone()), ("d/y.py".into(), affects_y.clone()), ("z.md".into(), md.clone())],
            diff_sections: Some(diff_of(&[("d/y.py", &affects_y), ("z.md", &md)])),
            globs: vec!["**".into()],
            list_only: true,
            cli_only: false,
        },
        {
            let p = "# <block name=\"shared\">\np = 1\n# </block>\n".to_string();
            let q = "# <block name=\"shared\">\nq = 1\n# </block>\n# <block name=\"only-q\">\nq = 2\n# </block>\n".to_string();
            let r = "# <block name=\"r1\" affects=\"p.py:shared\">\nr = 1\n# </block>\n# <block name=\"r2\" affects=\"q.py:shared, p.py:only-q, :shared\">\nr = 2\n# </block>\n".to_string();
            Repo {
                name: "R7-same-name-in-two-files",
                files: vec![("p.py".into(), p.clone()), ("q.py".into(), q.clone()), ("r.py".into(), r.clone())],
                diff_sections: Some(diff_of(&[("p.py", &p), ("q.py", &q), ("r.py", &r)])),
                globs: vec![],
                list_only: false,
                cli_only: false,
            }
        },
        Repo {
            // A directory whose name looks like a source file: only the walk may tell them apart.
            name: "R8-directory-named-like-a-file",
            files: vec![("top.py".into(), rules_file("8")), ("pkg.js/inner.py".into(), rules_file("9"))],
            diff_sections: None,
            globs: vec![],
            list_only: false,
            cli_only: false,
        },
        Repo {
            name: "R6-one-malformed-rule-among-violations",
            files: vec![("x.py".into(), rules_file("1")), ("d/y.py".into(), format!("{}# <block line-count=\"many\">\nx = 1\n# </block>\n", rules_file("2"))), ("z.md".into(), md)],
            diff_sections: None,
            globs: vec![],
            list_only: false,
            cli_only: false,
        },
        {
            // A type change (symbolic link → regular file): git prints a deleted-file section and a
            // new-file section for the same path; whatever their order, the path is in the diff.
            let x = "# <block name=\"t\" keep-sorted>\nb = 1\na = 2\n# </block>\n".to_string();
            let y = "# <block name=\"u\" keep-unique severity=\"warning\">\nd = 1\nd = 1\n# </block>\n".to_string();
            let deleted = "diff --git a/x.py b/x.py\ndeleted file mode 120000\nindex 1de5659..0000000\n--- a/x.py\n+++ /dev/null\n@@ -1 +0,0 @@\n-target.py\n\\ No newline at end of file\n".to_string();
            Repo {
                name: "R9-type-change-deleted-and-created-sections",
                files: vec![("x.py".into(), x.clone()), ("y.py".into(), y.clone())],
                diff_sections: Some(vec![deleted, cli::new_file_diff("x.py", &x), cli::new_file_diff("y.py", &y)]),
                globs: vec![],
                list_only: false,
                cli_only: false,
            }
        },
        {
            // One file with an error among files whose violations are warnings only: the status is
            // decided in the binary's `main`, so this repository is run through the CLI only.
            let warn = |i: usize| (format!("w{i}.py"), format!("# <block name=\"w{i}\" keep-unique severity=\"warning\">\nd = {i}\nd = {i}\n# </block>\n"));
            let mut files = vec![("e.py".to_string(), "# <block name=\"e\" keep-sorted>\nb = 1\na = 2\n# </block>\n".to_string())];
            files.extend((1..=5).map(warn));
            Repo { name: "R10-one-error-file-among-warning-only-files", files, diff_sections: None, globs: vec![], list_only: false, cli_only: true }
        },
        Repo {
            // The positional argument is the plain name of a directory that exists under the root
            // (and, with other content, under e/): a glob that matches no file, from any cwd.
            name: "R11-argument-that-names-a-directory",
            files: vec![("x.py".into(), rules_file("1")), ("d/y.py".into(), rules_file("2")), ("e/d/z.py".into(), rules_file("3"))],
            diff_sections: None,
            globs: vec!["d".into()],
            list_only: false,
            cli_only: true,
        },
    ]
}

/// The observable of a run as a canonical string: status class + sorted diagnostics or blocks.
pub fn canonical(outcome: &Outcome, list_only: bool) -> String {
    match outcome {
        Outcome::Report { blocks, diags } => {
            let mut items: Vec<String> = if list_only {
                blocks.iter().map(|b| format!("{}|{:?}|{:?}|{}", b.file.display(), b.start_tag_start, b.attributes, b.is_content_modified)).collect()
            } else {
                diags.iter().map(|d| format!("{}|{}|{}|{:?}|{}|{}", d.file, d.code, d.severity, d.range, d.message, d.data)).collect()
            };
            items.sort();
            format!("status={}\n{}", outcome.exit_status(), items.join("\n"))
        }
        // Which message is shown may legitimately depend on order only when several rules are
        // malformed; the catalogue has one, so the message is part of the observable.
        Outcome::Error { stage, message, .. } => format!("status=1 error:{stage}:{message}"),
        Outcome::Panic { message } => format!("panic:{message}"),
    }
}

#[derive(Clone, Debug, PartialEq, Eq, Hash)]
struct Case {
    repo: usize,
    map_order: usize,
    walk_order: usize,
    diff_order: usize,
}

/// One script directory for all threads: its path is part of tag lengths and messages.
fn shared_kit() -> &'static c18::Kit {
    static KIT: std::sync::OnceLock<c18::Kit> = std::sync::OnceLock::new();
    KIT.get_or_init(c18::Kit::new)
}

fn check_case(c: &Case, deviation_bound: Option<usize>, reference: &Mutex<Vec<Option<String>>>, schedules: &AtomicU64, sink: &Sink) {
    {
        let kit = shared_kit();
        // Nonces have a fixed width: they are part of attribute values, hence of tag lengths.
        let nonce = format!("c20n{:08}", NONCE.fetch_add(1, Ordering::Relaxed));
        let repos = catalogue(kit, &nonce);
        let repo = &repos[c.repo];
        let n = repo.files.len();
        let perms = permutations(n);
        let walk: Vec<(String, String)> = perms[c.walk_order].iter().map(|&i| repo.files[i].clone()).collect();
        let diff = repo.diff_sections.as_ref().map(|s| permutations(s.len())[c.diff_order].iter().map(|&i| s[i].clone()).collect::<String>());
        // The block map only holds files that have selected blocks; order those.
        let base = Input { files: walk, diff, globs: repo.globs.clone(), list_only: repo.list_only, ..Default::default() };
        let probe = librun::run(&base);
        let mut present: Vec<String> = probe.blocks().iter().map(|b| b.file.display().to_string()).collect();
        present.sort();
        present.dedup();
        let map_perms = permutations(present.len());
        let map_order: Vec<String> = map_perms[c.map_order % map_perms.len()].iter().map(|&i| present[i].clone()).collect();
        if c.map_order >= map_perms.len() {
            return; // fewer files in the map than in the repository: those orders are covered already
        }
        let input = Input { map_order: Some(map_order.clone()), ..base };
        let input_json = json!({"repo": c.repo, "map_order": c.map_order, "walk_order": c.walk_order, "diff_order": c.diff_order});
        // R4 (five scripted and two AI blocks) has more schedules than any budget: its schedules
        // are bounded by deviations in the thorough tier as well (reported as a cap).
        let deviation_bound = if repo.name.starts_with("R4") { Some(deviation_bound.unwrap_or(5)) } else { deviation_bound };
        let stats = e2::explore(&input, deviation_bound, 50_000, |outcome, trace| {
            sink.exec();
            // The AI endpoint answers by request content, so recorded requests are only drained.
            // Per-execution nonce and per-thread script directory are not part of the observable.
            let observable = canonical(outcome, repo.list_only).replace(&nonce, "NONCE").replace(&kit.dir.dir.display().to_string(), "KIT");
            let expected = {
                let mut r = reference.lock().unwrap();
                r[c.repo].get_or_insert_with(|| observable.clone()).clone()
            };
            sink.outcome(format!("{}:{}", repo.name, if observable == expected { "same" } else { "DIFFERENT" }));
            if observable != expected {
                let schedule = trace.iter().map(|t| format!("{}:{}/{}", t.label, t.chosen, t.options)).collect::<Vec<_>>().join(" ");
                sink.fail(
                    format!("C20:verdict-depends-on-order:{}", repo.name),
                    format!("{}: map order {map_order:?}, walk order #{}, diff-section order #{}, schedule [{schedule}] gives\n{observable}\n--- but another order gave ---\n{expected}", repo.name, c.walk_order, c.diff_order),
                    input_json.clone(),
                );
            }
        });
        for id in ["a1", "a2"] {
            FakeAi::global().take(&format!("{nonce}-{id}"));
        }
        if stats.divergence.is_some() || stats.capped {
            sink.machinery(format!("C20 {}: divergence {:?} capped {}", repo.name, stats.divergence, stats.capped));
        }
        schedules.fetch_add(stats.schedules, Ordering::Relaxed);
        sink.nontrivial();
        if c.map_order == 1 {
            sink.sample(|| json!({"repository": repo.name, "files": repo.files.iter().map(|f| f.0.clone()).collect::<Vec<_>>(), "block_map_order": map_order, "discovery_order_index": c.walk_order, "diff_section_order_index": c.diff_order, "schedules_executed": stats.schedules, "max_choice_points": stats.max_choice_points}));
        }
    }
}

fn write_repo(dir: &Scratch, repo: &Repo) {
    dir.clear();
    for (n, t) in &repo.files {
        dir.write(n, t);
    }
}

/// CLI: every directory as cwd; fresh processes (new hash seeds), core counts and runtime workers
/// (sampling supplement, labelled).
fn cli_phase(cfg: &Cfg, sink: &Sink) -> (u64, u64) {
    let kit = shared_kit();
    let repos = catalogue(kit, "cli");
    let dir = Scratch::repo("c20");
    let (mut exhaustive, mut sampled) = (0, 0);
    let repeats = cfg.tier.pick(6, 40);
    for (ri, repo) in repos.iter().enumerate() {
        write_repo(&dir, repo);
        let diff: Option<String> = repo.diff_sections.as_ref().map(|s| s.concat());
        let mut args: Vec<&str> = if repo.list_only { vec!["list"] } else { vec![] };
        args.extend(repo.globs.iter().map(String::as_str));
        let env = [("BLOCKWATCH_LUA_MODE", "safe"), ("BLOCKWATCH_AI_API_URL", FakeAi::global().url.as_str()), ("BLOCKWATCH_AI_API_KEY", "k")];
        let observe = |run: &cli::CliRun| -> String {
            if repo.list_only {
                let v: Value = serde_json::from_str(&run.stdout).unwrap_or(Value::Null);
                format!("code={:?} {}", run.code, v)
            } else {
                match run.diags() {
                    Ok(d) => {
                        let mut items: Vec<String> = d.iter().map(|d| format!("{}|{}|{}|{:?}|{}", d.file, d.code, d.severity, d.range, d.message)).collect();
                        items.sort();
                        format!("code={:?} {}", run.code, items.join(";"))
                    }
                    Err(_) => format!("code={:?} stderr={}", run.code, run.stderr.lines().filter(|l| !l.trim().is_empty()).take(3).collect::<Vec<_>>().join(" / ")),
                }
            }
        };
        let rule_scripts_are_absolute = true; // the kit's scripts have absolute paths, so cwd does not matter for them either
        let _ = rule_scripts_are_absolute;
        let reference = observe(&cli::blockwatch(&cfg.bin, &dir.dir, &args, diff.as_deref(), &env, 30));
        let input = json!({"cli": true, "repo": ri});
        // Every directory of the repository as cwd (exhaustive).
        let mut dirs: Vec<String> = vec![String::new()];
        for (p, _) in &repo.files {
            if let Some((d, _)) = p.rsplit_once('/') {
                if !dirs.contains(&d.to_string()) {
                    dirs.push(d.to_string());
                }
            }
        }
        for cwd in &dirs {
            exhaustive += 1;
            sink.exec();
            let got = observe(&cli::blockwatch(&cfg.bin, &dir.dir.join(cwd), &args, diff.as_deref(), &env, 30));
            sink.outcome(format!("cli:cwd:{}", if got == reference { "same" } else { "DIFFERENT" }));
            if got != reference {
                sink.fail(format!("C20:verdict-depends-on-cwd:{}", repo.name), format!("{} from {cwd:?}:\n{got}\n--- from the root ---\n{reference}", repo.name), input.clone());
            }
        }
        // Pinned to one core (`taskset -c <cpu>`): the number of available cores is an input like any
        // other and has two values here, one core and all of them.
        // The core is the first one this process may run on (`Cpus_allowed_list`); without that
        // information the run is skipped rather than risking an affinity error.
        let allowed_cpu = std::fs::read_to_string("/proc/self/status").ok().and_then(|t| {
            t.lines().find_map(|l| l.strip_prefix("Cpus_allowed_list:")).and_then(|v| v.trim().split([',', '-']).next().and_then(|c| c.trim().parse::<usize>().ok()))
        });
        if let Some(cpu) = allowed_cpu.filter(|_| std::path::Path::new("/usr/bin/taskset").exists()) {
            exhaustive += 1;
            sink.exec();
            let bin = cfg.bin.display().to_string();
            let cpu = cpu.to_string();
            let mut pinned_args: Vec<&str> = vec!["-c", &cpu, &bin];
            pinned_args.extend(args.iter().copied());
            let got = observe(&cli::blockwatch(std::path::Path::new("/usr/bin/taskset"), &dir.dir, &pinned_args, diff.as_deref(), &env, 30));
            sink.outcome(format!("cli:one-core:{}", if got == reference { "same" } else { "DIFFERENT" }));
            if got != reference {
                sink.fail(format!("C20:verdict-depends-on-core-count:{}", repo.name), format!("{} pinned to one core:\n{got}\n--- on all cores ---\n{reference}", repo.name), input.clone());
            }
        }
        // Supplement (sampling): fresh processes, 1 core vs all, 1 vs 16 runtime workers.
        for i in 0..repeats {
            sampled += 1;
            sink.exec();
            let workers = if i % 2 == 0 { "1" } else { "16" };
            let mut env2 = env.to_vec();
            env2.push(("TOKIO_WORKER_THREADS", workers));
            let got = observe(&cli::blockwatch(&cfg.bin, &dir.dir, &args, diff.as_deref(), &env2, 30));
            sink.outcome(format!("cli:repeat:{}", if got == reference { "same" } else { "DIFFERENT" }));
            if got != reference {
                sink.fail(format!("C20:verdict-differs-between-processes:{}", repo.name), format!("{} repetition {i} (workers {workers}):\n{got}\n--- first run ---\n{reference}", repo.name), input.clone());
            }
        }
    }
    (exhaustive, sampled)
}

pub fn run(cfg: &Cfg, sink: &Arc<Sink>) -> Report {
    c18::prepare_env();
    unsafe {
        std::env::set_var("BLOCKWATCH_AI_API_URL", &FakeAi::global().url);
        std::env::set_var("BLOCKWATCH_AI_API_KEY", "k");
    }
    let mut report = Report::new("for each repository of a catalogue (11 repositories of 2–6 files: a positional argument that is the plain name of a directory (CLI only), a type change whose diff has a deleted-file and a new-file section for one path, one error file among warning-only files (CLI only), a directory named like a source file, same block name modified in two files with references to each, rules with mixed severities, cross-file affects in diff mode with 3 diff sections, diff + glob, Lua + AI + sync rules, `list` with diff, one malformed rule among violations) every combination of block-map iteration order × file discovery order × order of the diff's file sections is taken, and for each every schedule of the seams (validator thread bodies, async delivery orders) is executed (E2); the canonical observable (status + sorted diagnostics / listed blocks / error) must be one single value per repository; through the real CLI every directory of each repository is used as cwd (exhaustive) and fresh processes with 1 and 16 runtime workers are repeated (sampling supplement: per-process hash seeds and thread timing are not enumerable); non-trivial = every combination");
    report.assume("hash maps other than the block map are only looked up or iterated into order-insensitive outputs; the fresh-process repetitions are a labelled sampling pass for them");
    let reference = Arc::new(Mutex::new(vec![None; 11]));
    let schedules = Arc::new(AtomicU64::new(0));
    let thorough = cfg.tier == Tier::Thorough;
    let mut cases = Vec::new();
    // (files, diff sections) of the repositories explored through the library, in catalogue order.
    let sizes: [(usize, usize); 9] = [(4, 0), (3, 3), (4, 2), (3, 0), (3, 2), (3, 3), (2, 0), (3, 0), (2, 3)];
    for (repo, (files, sections)) in sizes.iter().enumerate() {
        let file_perms = permutations(*files).len();
        let diff_perms = permutations(*sections).len().max(1);
        for map_order in 0..file_perms {
            for walk_order in 0..file_perms {
                // Quick: all map orders × (identity + reverse + one rotation of the walk) × all diff orders.
                if !thorough && ![0, file_perms - 1, file_perms / 2].contains(&walk_order) {
                    continue;
                }
                for diff_order in 0..diff_perms {
                    cases.push(Case { repo, map_order, walk_order, diff_order });
                }
            }
        }
    }
    let n = cases.len();
    // Quick: schedules with at most 2 deviations from the default order; thorough: all of them.
    let bound = if thorough { None } else { Some(3) };
    let (r2, s2) = (Arc::clone(&reference), Arc::clone(&schedules));
    report.phase(engine::explore(
        "map order × discovery order × diff-section order × all schedules (library)",
        &format!("{n} order combinations over 9 repositories, {} for each", if thorough { "every schedule of the seams" } else { "every schedule with ≤3 deviations from the default order" }),
        Grid { cases, check: move |c: &Case, s: &Sink| check_case(c, bound, &r2, &s2, s) },
        sink,
        cfg.threads,
        false,
    ));
    report.extra.insert("schedules_executed".into(), json!(schedules.load(Ordering::Relaxed)));
    if thorough {
        report.cap("thorough: repository R4 (five scripted and two AI blocks) is explored under every schedule with ≤5 deviations from the default order, all other repositories under every schedule");
    }
    if !thorough {
        report.cap("quick: 3 of the file-discovery orders per repository (identity, reverse, a middle permutation) and schedules with ≤3 deviations; thorough: all discovery orders and all schedules");
    }
    let (exhaustive, sampled) = cli_phase(cfg, sink);
    report.phase(Phase { name: "every cwd through the real CLI".into(), states: exhaustive, transitions: exhaustive, max_depth: 1, exhaustive: true, bound: "every directory of each catalogue repository, plus one run pinned to one core".into() });
    report.phase(Phase { name: "supplement: fresh processes, 1 vs 16 runtime workers (sampling, labelled)".into(), states: sampled, transitions: sampled, max_depth: 1, exhaustive: false, bound: format!("{} repetitions per repository", cfg.tier.pick(6, 40)) });
    report
}

pub fn replay(cfg: &Cfg, input: &Value, sink: &Arc<Sink>) {
    c18::prepare_env();
    unsafe {
        std::env::set_var("BLOCKWATCH_AI_API_URL", &FakeAi::global().url);
        std::env::set_var("BLOCKWATCH_AI_API_KEY", "k");
    }
    if input.get("cli").is_some() {
        cli_phase(cfg, sink);
        return;
    }
    // Replaying one combination needs the reference of the identity combination first.
    let reference = Mutex::new(vec![None; 11]);
    let schedules = AtomicU64::new(0);
    let repo = input["repo"].as_u64().unwrap_or(0) as usize;
    check_case(&Case { repo, map_order: 0, walk_order: 0, diff_order: 0 }, None, &reference, &schedules, sink);
    check_case(&Case { repo, map_order: input["map_order"].as_u64().unwrap_or(0) as usize, walk_order: input["walk_order"].as_u64().unwrap_or(0) as usize, diff_order: input["diff_order"].as_u64().unwrap_or(0) as usize }, None, &reference, &schedules, sink);
}
