//! One module per property (group): alphabet, bound, oracle, classifier.

use crate::core::{Cfg, Report, Sink};
use serde_json::Value;
use std::sync::Arc;

pub mod c01;
pub mod c02;
pub mod c03;
pub mod c04;
pub mod c05;
pub mod c10;
pub mod c11;
pub mod c12;
pub mod c13;
pub mod c14;
pub mod c15;
pub mod c16;
pub mod c17;
pub mod c18;
pub mod c19;
pub mod conform;
pub mod difflab;
pub mod c20;
pub mod kit;
pub mod langkit;
pub mod rules;

pub struct Prop {
    /// Run the exploration in a supervised child process (aborts and hangs are then attributed).
    pub isolate: bool,
    pub level: &'static str,
    pub run: fn(&Cfg, &Arc<Sink>) -> Report,
    pub replay: fn(&Cfg, &Value, &Arc<Sink>),
}

pub fn lookup(id: &str) -> Option<Prop> {
    Some(match id {
        "C01" => Prop { isolate: false, level: "model_checking", run: c01::run, replay: c01::replay },
        "C02" => Prop { isolate: false, level: "model_checking", run: c02::run, replay: c02::replay },
        "C03" => Prop { isolate: false, level: "model_checking", run: c03::run, replay: c03::replay },
        "C04" => Prop { isolate: true, level: "model_checking", run: c04::run, replay: c04::replay },
        "C05" => Prop { isolate: false, level: "model_checking", run: c05::run, replay: c05::replay },
        "C06" => Prop { isolate: false, level: "model_checking", run: rules::run_c06, replay: rules::replay_c06 },
        "C07" => Prop { isolate: false, level: "model_checking", run: rules::run_c07, replay: rules::replay_c07 },
        "C08" => Prop { isolate: false, level: "model_checking", run: rules::run_c08, replay: rules::replay_c08 },
        "C09" => Prop { isolate: false, level: "model_checking", run: rules::run_c09, replay: rules::replay_c09 },
        "C10" => Prop { isolate: false, level: "model_checking", run: c10::run, replay: c10::replay },
        "C11" => Prop { isolate: false, level: "model_checking", run: c11::run, replay: c11::replay },
        "C12" => Prop { isolate: false, level: "model_checking", run: c12::run, replay: c12::replay },
        "C13" => Prop { isolate: false, level: "fault_enumeration", run: c13::run, replay: c13::replay },
        "C14" => Prop { isolate: false, level: "model_checking", run: c14::run, replay: c14::replay },
        "C15" => Prop { isolate: false, level: "model_checking", run: c15::run, replay: c15::replay },
        "C16" => Prop { isolate: false, level: "model_checking", run: c16::run, replay: c16::replay },
        "C17" => Prop { isolate: false, level: "model_checking", run: c17::run, replay: c17::replay },
        "C18" => Prop { isolate: false, level: "model_checking", run: c18::run, replay: c18::replay },
        "C19" => Prop { isolate: false, level: "fault_enumeration", run: c19::run, replay: c19::replay },
        "C20" => Prop { isolate: false, level: "model_checking", run: c20::run, replay: c20::replay },
        _ => return None,
    })
}
