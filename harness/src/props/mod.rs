//! One module per property (group): alphabet, bound, oracle, classifier.

use crate::core::{Cfg, Report, Sink};
use serde_json::Value;
use std::sync::Arc;

pub mod c03;
pub mod c05;
pub mod kit;
pub mod langkit;
pub mod rules;

pub struct Prop {
    pub level: &'static str,
    pub run: fn(&Cfg, &Arc<Sink>) -> Report,
    pub replay: fn(&Cfg, &Value, &Arc<Sink>),
}

pub fn lookup(id: &str) -> Option<Prop> {
    Some(match id {
        "C03" => Prop { level: "model_checking", run: c03::run, replay: c03::replay },
        "C05" => Prop { level: "model_checking", run: c05::run, replay: c05::replay },
        "C06" => Prop { level: "model_checking", run: rules::run_c06, replay: rules::replay_c06 },
        "C07" => Prop { level: "model_checking", run: rules::run_c07, replay: rules::replay_c07 },
        "C08" => Prop { level: "model_checking", run: rules::run_c08, replay: rules::replay_c08 },
        "C09" => Prop { level: "model_checking", run: rules::run_c09, replay: rules::replay_c09 },
        _ => return None,
    })
}
