//! C02: diff mode validates exactly the touched blocks, with full-scan verdicts. Same engine as
//! C01 (edit histories on labelled templates, real git diffs) plus character-level edits at every
//! boundary of the tag lines; rule verdicts are compared with a full scan of the same tree.

use crate::cli::TreePair;
use crate::core::{Cfg, Report, Sink, Tier};
use crate::engine::{self, Space};
use crate::librun::{self, Diag, Input, Outcome};
use crate::props::c01::{Canon, State, diff_features};
use crate::props::difflab::{self, Edit, FileDiff, LFile, Label, MARK_CONTENT, MARK_SPAN, lfile};
use crate::props::rules::first_line;
use serde_json::{Value, json};
use std::collections::BTreeMap;
use std::sync::Arc;

pub struct Template {
    pub name: &'static str,
    pub files: Vec<LFile>,
}

/// A script rule for the templates: returns a message, needs no library.
fn script() -> &'static str {
    static S: std::sync::OnceLock<(crate::cli::Scratch, String)> = std::sync::OnceLock::new();
    &S.get_or_init(|| {
        let s = crate::cli::Scratch::new("c02lua");
        s.write("msg.lua", "function validate(ctx, content)\n  return \"script says no: \" .. #content\nend\n");
        let p = s.path("msg.lua").display().to_string();
        (s, p)
    })
    .1
}

pub fn templates() -> Vec<Template> {
    let lua = script();
    // TF: the file does not end with a newline and its last line is a block's end tag, so git
    // prints its `\ No newline at end of file` marker between the `-` and `+` lines of an edit there.
    let mut tf = lfile(
        "x.py",
        "{} = 0",
        "O|first = 0\nO|pad1 = 0\nT0|# <block name=\"u\" keep-unique line-count=\"<2\"> note\nC|d = 1\nC|d = 1 \nE0|# </block>\nO|pad2 = 0\nO|pad3 = 0\nT1|# <block name=\"s\" keep-sorted z=\"1\"> note\nC|b = 1\nC|a = 2\nE1|# </block> note",
    );
    tf.trailing_newline = false;
    let mut all = vec![
        Template {
            name: "TA-python-rules",
            files: vec![
                lfile(
                    "x.py",
                    "{} = 0",
                    "O|import os\nO|pad1 = 0\nT0|# <block name=\"s\" keep-sorted z=\"1\"> note\nC|b = 1\nC|a = 2\nE0|# </block> note\nO|pad2 = 0\nO|pad3 = 0\nT1|# <block name=\"u\" keep-unique=\"^(?P<value>\\w+) =\">\nC|d = 1\nC|d = 2\nE1|# </block>\nO|pad4 = 0\nO|pad5 = 0\nT2|# <block name=\"p\" line-pattern=\"^[a-z]+ = \\d+$\" line-count=\"<=1\">\nC|ok = 1\nC|Bad = x\nE2|# </block>\nO|pad6 = 0\nO|tail = 0",
                ),
                lfile(
                    "w.py",
                    "{} = 0",
                    "O|first = 0\nO|pad1 = 0\nT3|# <block name=\"q\" keep-sorted=\"desc\">\nC|m = 1\nC|n = 2\nE3|# </block>\nO|pad2 = 0\nO|last = 0",
                ),
            ],
        },
        Template {
            name: "TB-js-content-on-tag-line",
            files: vec![lfile(
                "x.js",
                "let {} = 0;",
                &format!("O|let pad0 = 0;\nO|let pad1 = 0;\nT0|/* é こんにちは世界ようこそ皆さんへ <block name=\"s\" keep-sorted z=\"1\"> note */ let b = 1;\nC|let a = 2;\nE0|/* </block> note */\nO|let pad2 = 0;\nO|let pad3 = 0;\nT1|/* <block name=\"c\" line-count=\"<1\" check-lua=\"{lua}\"> */ let c1 = 1;\nE1|// </block>\nO|let pad4 = 0;\nO|let tail = 0;"),
            )],
        },
        Template {
            name: "TC-js-tag-on-line-2-of-3",
            files: vec![lfile(
                "x.js",
                "let {} = 0;",
                "O|let pad0 = 0;\nO|let pad1 = 0;\nS0|/* first\nT0|   <block name=\"s\" keep-sorted z=\"1\"> note\nS0|   last */\nC|let b = 1;\nC|let a = 2;\nE0|/* head\nE0|   </block> note\nE0|   foot */\nO|let pad2 = 0;\nO|let tail = 0;",
            )],
        },
        Template {
            name: "TD-markdown",
            files: vec![lfile(
                "y.md",
                "{} text",
                "O|# Title\nO|\nO|Intro text\nO|\nT0|[//]: # (<block name=\"s\" keep-sorted z=\"1\"> note)\nC|b line\nC|a line\nC|\nE0|[//]: # (</block> note)\nO|\nO|Middle text\nO|\nT1|<!-- <block name=\"c\" line-count=\"<1\"> note -->\nC|Counted text\nE1|<!-- </block> note -->\nO|\nO|Tail text",
            )],
        },
        Template {
            name: "TE-nested",
            files: vec![lfile(
                "x.py",
                "{} = 0",
                "O|top = 0\nO|pad1 = 0\nT0|# <block name=\"o\" keep-sorted line-count=\"<3\"> note\nC|c1 = 1\nT1|# <block name=\"i\" keep-sorted z=\"1\"> note\nC|n2 = 1\nC|n1 = 2\nE1|# </block> note\nC|c0 = 2\nE0|# </block>\nO|pad2 = 0\nO|tail = 0",
            )],
        },
    ];
    all.push(Template { name: "TF-no-trailing-newline", files: vec![tf] });
    // TG: template TB (content on the tag's line, multi-byte character before the tag) with CR LF
    // line ends.
    let mut tg_files = all[1].files.clone();
    for f in &mut tg_files {
        f.crlf = true;
    }
    all.push(Template { name: "TG-js-crlf", files: tg_files });
    all
}

#[derive(Clone, Copy, Debug, PartialEq, Eq)]
pub enum Exp {
    /// Content touched: selected and content-modified.
    Inside,
    /// Only the start tag's `<`…`>` span touched: selected, not content-modified.
    TagOnly,
    /// Neither: not selected.
    No,
    /// A whole line adjoining the block's tag lines from outside changed: the statements leave
    /// this open.
    DontCare,
}

/// Per (file index, block id): what the diff + the character-level edits say.
pub fn expectations(base: &[LFile], new: &[LFile], diffs: &[FileDiff]) -> BTreeMap<(usize, u8), Exp> {
    let mut result = BTreeMap::new();
    for (fi, nf) in new.iter().enumerate() {
        let bf = &base[fi];
        let fd = diffs.iter().find(|d| d.new_path.as_deref() == Some(nf.name));
        let (minus, plus): (&[usize], &[usize]) = match fd {
            Some(d) => (&d.minus, &d.plus),
            None => (&[], &[]),
        };
        let old_spans = bf.spans();
        for (id, s1, s2, e1, e2) in nf.spans() {
            let (_, os1, _os2, _oe1, oe2) = *old_spans.iter().find(|s| s.0 == id).expect("block exists in the base");
            let os2 = old_spans.iter().find(|s| s.0 == id).unwrap().2;
            let oe1 = old_spans.iter().find(|s| s.0 == id).unwrap().3;
            let inside_lines = plus.iter().any(|&n| s2 < n && n < e1) || minus.iter().any(|&o| os2 < o && o < oe1);
            let marks = nf.lines.iter().filter(|l| matches!(l.label, Label::Start(b, _) if b == id)).fold(0u8, |m, l| m | l.marks);
            // A whole line inserted inside the start comment next to an edited tag line: git may pair
            // the old tag line with the inserted line, which the statements do not constrain.
            let comment_line_inserted = marks != 0 && plus.iter().any(|&n| s1 <= n && n <= s2 && matches!(nf.lines[n - 1].label, Label::Start(_, false)));
            let adjoining = comment_line_inserted || plus.iter().any(|&n| n + 1 == s1 || n == e2 + 1) || minus.iter().any(|&o| o + 1 == os1 || o == oe2 + 1);
            let exp = if inside_lines || marks & MARK_CONTENT != 0 {
                Exp::Inside
            } else if adjoining {
                Exp::DontCare
            } else if marks & MARK_SPAN != 0 {
                Exp::TagOnly
            } else {
                Exp::No
            };
            result.insert((fi, id), exp);
        }
    }
    result
}

/// Diagnostics keyed by (file, tag line of the block they belong to).
fn by_block(diags: &[Diag]) -> BTreeMap<(String, usize), Vec<String>> {
    let re = regex::Regex::new(r"(?:defined )?at line (\d+)").unwrap();
    let mut map: BTreeMap<(String, usize), Vec<String>> = BTreeMap::new();
    for d in diags {
        let line = re.captures(&d.message).and_then(|c| c[1].parse::<usize>().ok()).unwrap_or(0);
        map.entry((d.file.clone(), line)).or_default().push(format!("{}|{}|{:?}|{}|{}", d.code, d.severity, d.range, d.message, d.data));
    }
    for v in map.values_mut() {
        v.sort();
    }
    map
}

thread_local! {
    static PAIR: TreePair = TreePair::new("c02");
    static TEMPLATES: Vec<Template> = templates();
}

fn judge(t: &Template, new: &[LFile], diff: &str, context: usize, input: &Value, sink: &Sink) {
    let parsed = match difflab::read_diff(diff) {
        Ok(p) => p,
        Err(e) => {
            sink.machinery(format!("own diff reader failed: {e}\n{diff}"));
            return;
        }
    };
    let expect = expectations(&t.files, new, &parsed);
    let features = diff_features(diff);
    let mispaired = crate::props::c01::files_with_cross_boundary_pairing(&t.files, new, &parsed);
    let class = |file: &str| format!("{}{}", features.get(file).cloned().unwrap_or_default(), if mispaired.iter().any(|f| f == file) { ":paired-across-block-boundary" } else { "" });
    let files: Vec<(String, String)> = new.iter().map(|f| (f.name.to_string(), f.text())).collect();
    let describe = |extra: &str| format!("{} -U{context}: {extra}\n--- diff ---\n{diff}", t.name);
    // The full scan of the same tree is the reference for rule verdicts.
    sink.exec();
    let scan = librun::run(&Input { files: files.clone(), ..Default::default() });
    let Outcome::Report { diags: scan_diags, blocks: scan_blocks } = &scan else {
        sink.fail("C02:full-scan-failed", describe(&format!("{}", scan.to_json())), input.clone());
        return;
    };
    let scan_by_block = by_block(scan_diags);
    let total_blocks: usize = new.iter().map(|f| f.spans().len()).sum();
    if scan_blocks.len() != total_blocks {
        sink.machinery(format!("C02 scaffold: full scan lists {} blocks, expected {total_blocks}\n{}", scan_blocks.len(), describe("")));
        return;
    }
    let first_file = new[0].name.to_string();
    for (mode, globs) in [("diff", vec![]), ("diff+glob-all", vec!["**".to_string()]), ("diff+glob-first-file", vec![first_file.clone()])] {
        sink.exec();
        let outcome = librun::run(&Input { files: files.clone(), diff: Some(diff.to_string()), globs: globs.clone(), ..Default::default() });
        let (blocks, diags) = match &outcome {
            Outcome::Report { blocks, diags } => (blocks, diags),
            Outcome::Error { stage, message, .. } => {
                sink.outcome(format!("{}:{mode}:error-{stage}", t.name));
                sink.fail(format!("C02:unexpected-error:{stage}"), describe(&format!("{mode}: {}", first_line(message))), input.clone());
                continue;
            }
            Outcome::Panic { message } => {
                sink.outcome(format!("{}:{mode}:panic", t.name));
                sink.fail(format!("C02:panic:{}", first_line(message)), describe(&format!("{mode}: panic {message}")), input.clone());
                continue;
            }
        };
        let got_by_block = by_block(diags);
        let mut ok = true;
        for (fi, f) in new.iter().enumerate() {
            let glob_matches = match mode {
                "diff" => false,
                "diff+glob-all" => true,
                _ => f.name == first_file,
            };
            for (id, ..) in f.spans() {
                let line = f.tag_line(id);
                let exp = expect[&(fi, id)];
                let listed = blocks.iter().find(|b| b.file.to_str() == Some(f.name) && b.start_tag_start.0 == line);
                let key = (f.name.to_string(), line);
                let scan_d = scan_by_block.get(&key).cloned().unwrap_or_default();
                let got_d = got_by_block.get(&key).cloned().unwrap_or_default();
                let who = format!("block #{id} at {}:{line}", f.name);
                let selected_expected = match (exp, glob_matches) {
                    (_, true) => Some(true),
                    (Exp::Inside | Exp::TagOnly, _) => Some(true),
                    (Exp::No, _) => Some(false),
                    (Exp::DontCare, _) => None,
                };
                match (selected_expected, listed.is_some()) {
                    (Some(true), false) => {
                        ok = false;
                        sink.fail(format!("C02:touched-block-not-selected:{exp:?}:{mode}{}", class(f.name)), describe(&format!("{who} is {exp:?} but not listed/validated")), input.clone());
                        continue;
                    }
                    (Some(false), true) => {
                        ok = false;
                        sink.fail(format!("C02:untouched-block-selected:{mode}{}", class(f.name)), describe(&format!("{who} is untouched by the diff (and not matched by a path argument) but is listed")), input.clone());
                    }
                    _ => {}
                }
                if let Some(b) = listed {
                    match exp {
                        Exp::Inside if !b.is_content_modified => {
                            ok = false;
                            sink.fail(format!("C02:content-flag-missing:{mode}{}", class(f.name)), describe(&format!("{who}: content touched but is_content_modified is false")), input.clone());
                        }
                        Exp::TagOnly | Exp::No if b.is_content_modified => {
                            ok = false;
                            sink.fail(format!("C02:content-flag-spurious:{exp:?}:{mode}{}", class(f.name)), describe(&format!("{who}: only {} touched but is_content_modified is true", if exp == Exp::TagOnly { "the start tag" } else { "other text" })), input.clone());
                        }
                        _ => {}
                    }
                    // Verdicts of a selected block = full-scan verdicts.
                    if got_d != scan_d {
                        ok = false;
                        sink.fail(format!("C02:verdict-differs-from-full-scan:{mode}"), describe(&format!("{who}: diff mode reports {got_d:?}, full scan reports {scan_d:?}")), input.clone());
                    }
                } else if !got_d.is_empty() {
                    ok = false;
                    sink.fail(format!("C02:diagnostic-for-unselected-block:{mode}"), describe(&format!("{who}: {got_d:?}")), input.clone());
                }
            }
        }
        let attributed: usize = got_by_block.iter().filter(|((f, l), _)| new.iter().any(|nf| nf.name == f && nf.spans().iter().any(|(id, ..)| nf.tag_line(*id) == *l))).map(|(_, v)| v.len()).sum();
        if attributed != diags.len() {
            ok = false;
            sink.fail(format!("C02:stray-diagnostic:{mode}"), describe(&format!("{:?}", diags.iter().map(|d| (&d.file, &d.code, &d.message)).collect::<Vec<_>>())), input.clone());
        }
        sink.outcome(format!("{}:{mode}:{}:selected={}", t.name, if ok { "ok" } else { "bad" }, blocks.len().min(3)));
    }
}

fn check_state(template: usize, state: &State, contexts: &[usize], sink: &Sink) {
    if state.depth == 0 {
        return;
    }
    TEMPLATES.with(|ts| {
        let t = &ts[template];
        let input = json!({"template": template, "edits": state.history.iter().map(Edit::to_json).collect::<Vec<_>>()});
        for &context in contexts {
            let diff = match PAIR.with(|p| difflab::git_diff(p, &t.files, &state.files, context)) {
                Ok(d) => d,
                Err(e) => {
                    sink.machinery(e);
                    return;
                }
            };
            if diff.is_empty() {
                continue;
            }
            judge(t, &state.files, &diff, context, &input, sink);
        }
        sink.nontrivial();
        if state.depth >= 2 {
            sink.sample(|| json!({"input": input, "new_files": state.files.iter().map(|f| json!({"name": f.name, "text": f.text()})).collect::<Vec<_>>()}));
        }
    });
}

struct C02Space {
    template: usize,
    max_depth: u8,
    contexts: Vec<usize>,
    /// Only replacements and character-level tag edits (no insertions/deletions).
    replacements_only: bool,
}

fn c02_edits(files: &[LFile]) -> Vec<Edit> {
    // Whole-line edits of content/outside lines (tag lines are only edited character-wise here)
    // plus the character-level edits of tag lines.
    let mut v: Vec<Edit> = difflab::edits(files)
        .into_iter()
        .filter(|e| match e {
            Edit::Rep { file, idx, variant } => *variant == 0 && matches!(files[*file].lines[*idx].label, Label::Content | Label::Outside),
            Edit::Ins { dup, .. } => !dup, // lines stay pairwise distinct
            _ => true,
        })
        .collect();
    v.extend(difflab::tag_char_edits(files));
    v
}

impl Space for C02Space {
    type State = Canon;
    fn init(&self) -> Vec<Canon> {
        TEMPLATES.with(|ts| vec![Canon(State { files: ts[self.template].files.clone(), depth: 0, history: vec![] })])
    }
    fn succ(&self, state: &Canon) -> Vec<Canon> {
        let s = &state.0;
        if s.depth >= self.max_depth {
            return Vec::new();
        }
        c02_edits(&s.files)
            .into_iter()
            .filter(|e| !self.replacements_only || matches!(e, Edit::Rep { .. } | Edit::TagChar { .. }))
            .map(|e| {
                let files = difflab::apply(&s.files, &e, s.depth as usize + 1);
                let mut history = s.history.clone();
                history.push(e);
                Canon(State { files, depth: s.depth + 1, history })
            })
            .filter(|c| c.0.files != s.files)
            .collect()
    }
    fn check(&self, state: &Canon, sink: &Sink) {
        check_state(self.template, &state.0, &self.contexts, sink);
    }
}

pub fn run(cfg: &Cfg, sink: &Arc<Sink>) -> Report {
    let mut report = Report::new("states = repository contents reached from a labelled template whose blocks carry rules (sorted/unique/pattern/count and a Lua script rule, violating and not; 7 templates: Python line comments over two files, JS one-line block comments with content on the tag's line and a multi-byte character before the tag, JS tag on line 2 of a 3-line comment with a 3-line end comment, Markdown link-reference + HTML comments, nested, a file without trailing newline whose last line is an end tag, the JS template with CR LF line ends) by whole-line insertions/deletions/replacements of content and outside lines and by character-level edits of the tag lines (inside the `<`…`>` span: value character, attribute inserted before `>`, last attribute removed, attribute inserted after `<block`; outside it: character before `<`, after `>`, end of the note, in the end-tag comment; first content character on the tag's line); in every state real `git diff -U<k>` is fed to the real code without path arguments, with `**` and with the first file as path argument, and the same tree is scanned in full; per block the edit classification {inside, tag-only, untouched, adjoining = don't care} fixes selection and the content flag, and every selected block's diagnostics must equal the full scan's; non-trivial = every state ≠ template");
    report.assume("all lines of the templates are pairwise distinct and inserted lines are fresh, so git's minimal diff is the edit script");
    report.assume("rule verdicts are compared metamorphically with the full scan (C06–C09 decide the rule semantics themselves)");
    let n = templates().len();
    let (depth, contexts): (u8, Vec<usize>) = match cfg.tier {
        Tier::Quick => (2, vec![0, 3]),
        Tier::Thorough => (3, vec![0, 1, 3, 10]),
    };
    for ti in 0..n {
        let name = templates()[ti].name;
        report.phase(engine::explore(
            name,
            &format!("all edit histories of length ≤{depth} × -U{contexts:?} × {{no path argument, **, first file}}"),
            C02Space { template: ti, max_depth: depth, contexts: contexts.clone(), replacements_only: false },
            sink,
            cfg.threads,
            false,
        ));
    }
    // One level deeper over replacements and tag edits only (≥3 changed lines per file).
    for ti in [1usize, 4] {
        let name = templates()[ti].name;
        report.phase(engine::explore(
            &format!("{name}, replacements and tag edits only"),
            &format!("all histories of ≤{} replacements / character-level tag edits × -U[0] × {{no path argument, **, first file}}", depth + 1),
            C02Space { template: ti, max_depth: depth + 1, contexts: vec![0], replacements_only: true },
            sink,
            cfg.threads,
            false,
        ));
    }
    report
}

pub fn replay(_cfg: &Cfg, input: &Value, sink: &Arc<Sink>) {
    let ti = input["template"].as_u64().unwrap_or(0) as usize;
    let edits: Vec<Edit> = input["edits"].as_array().map(|a| a.iter().filter_map(Edit::from_json).collect()).unwrap_or_default();
    let ts = templates();
    let mut files = ts[ti].files.clone();
    for (d, e) in edits.iter().enumerate() {
        files = difflab::apply(&files, e, d + 1);
    }
    let state = State { files, depth: edits.len() as u8, history: edits };
    check_state(ti, &state, &[0, 1, 3, 10], sink);
}
