//! C12: unbalanced block tags are a hard error. For every well-nested file of the C03 space and
//! every single tag in it: delete the tag, duplicate it, or remove the comment that holds it;
//! the damaged file, alone or among healthy files, must fail the run with an error naming it, in
//! scan, list and diff mode.

use crate::cli;
use crate::core::{Cfg, Report, Sink, Tier};
use crate::engine::{self, Space};
use crate::librun::{self, Input, Outcome};
use crate::props::c03::{self, MAX_NESTING};
use crate::props::langkit::{self, Kit, Renderer, Seg, Tags, KITS};
use crate::props::rules::first_line;
use serde_json::{Value, json};
use std::sync::Arc;

const HEALTHY: &[(&str, &str)] = &[
    ("h1.py", "# <block name=\"h\" keep-sorted>\na\nb\n# </block>\n"),
    ("h2.md", "# T\n\n[//]: # (<block name=\"m\">)\ntext\n\n[//]: # (</block>)\n"),
];

#[derive(Clone, Copy, Debug, PartialEq, Eq)]
enum Damage {
    Delete,
    Duplicate,
    RemoveComment,
}

fn damaged(rendered: &langkit::Rendered, site: &langkit::TagSite, damage: Damage, tags_in_comment: usize) -> Option<String> {
    let t = &rendered.text;
    match damage {
        Damage::Delete => Some(format!("{}{}", &t[..site.offset], &t[site.offset + site.len..])),
        Damage::Duplicate => {
            let tag = &t[site.offset..site.offset + site.len];
            Some(format!("{}{} {}{}", &t[..site.offset + site.len], "", tag, &t[site.offset + site.len..]))
        }
        Damage::RemoveComment => {
            if tags_in_comment != 1 {
                return None; // removing a comment with two tags keeps the file balanced
            }
            Some(format!("{}{}", &t[..site.comment.0], &t[site.comment.1..]))
        }
    }
}

fn run_mode(files: Vec<(String, String)>, bad: &str, bad_text: &str, mode: &str) -> Outcome {
    match mode {
        "scan" => librun::run(&Input { files, ..Default::default() }),
        "list" => librun::run(&Input { files, list_only: true, ..Default::default() }),
        // The diff names the damaged file (every line added); the other files are not in the diff.
        "diff" => librun::run(&Input { files, diff: Some(cli::new_file_diff(bad, bad_text)), ..Default::default() }),
        "diff+glob" => librun::run(&Input { files, diff: Some(cli::new_file_diff(bad, bad_text)), globs: vec!["**".into()], ..Default::default() }),
        // A path argument that matches none of the files: the file named in the diff is in scope all the same.
        "diff+other-glob" => librun::run(&Input { files, diff: Some(cli::new_file_diff(bad, bad_text)), globs: vec!["elsewhere/**".into()], ..Default::default() }),
        _ => unreachable!(),
    }
}

fn check_segs(kit: &'static Kit, file: &str, segs: &[Seg], sink: &Sink) {
    let rendered = c03::render(kit, segs, false);
    let input = json!({"grammar": kit.grammar, "file": file, "segs": segs.iter().map(langkit::seg_json).collect::<Vec<_>>()});
    for (si, site) in rendered.tag_sites.iter().enumerate() {
        let tags_in_comment = rendered.tag_sites.iter().filter(|s| s.comment == site.comment).count();
        for damage in [Damage::Delete, Damage::Duplicate, Damage::RemoveComment] {
            let Some(text) = damaged(&rendered, site, damage, tags_in_comment) else { continue };
            // Companions: alone; bad first; bad last; bad in the middle.
            let layouts: [&[usize]; 4] = [&[], &[9, 0], &[0, 9], &[0, 9, 1]];
            for (li, layout) in layouts.iter().enumerate() {
                let files: Vec<(String, String)> = if layout.is_empty() {
                    vec![(file.to_string(), text.clone())]
                } else {
                    layout.iter().map(|&i| if i == 9 { (file.to_string(), text.clone()) } else { (HEALTHY[i].0.to_string(), HEALTHY[i].1.to_string()) }).collect()
                };
                // Rotate the modes over the layouts so that every (damage, mode) and every
                // (layout, mode) pair occurs for every tag, without the full product.
                let modes: &[&str] = match li {
                    0 => &["scan", "list", "diff", "diff+glob", "diff+other-glob"],
                    1 => &["scan", "diff", "diff+other-glob"],
                    2 => &["list", "diff+glob"],
                    _ => &["scan", "list"],
                };
                for mode in modes {
                    sink.exec();
                    let outcome = run_mode(files.clone(), file, &text, mode);
                    let what = format!("{}:{damage:?}:{}", kit.grammar, if site.is_start { "start-tag" } else { "end-tag" });
                    match &outcome {
                        Outcome::Error { stage, message, .. } if *stage == "parse" => {
                            sink.outcome(format!("{}:{mode}:error", kit.grammar));
                            if !message.contains(file) {
                                sink.fail(format!("C12:error-does-not-name-file:{}", kit.grammar), format!("{mode}: tag #{si} {damage:?}: error is {:?}\n--- {file} ---\n{text}", first_line(message)), input.clone());
                            }
                        }
                        Outcome::Error { stage, message, .. } => {
                            sink.outcome(format!("{}:{mode}:error-{stage}", kit.grammar));
                            sink.fail(format!("C12:wrong-stage:{stage}:{}", kit.grammar), format!("{mode}: {message}"), input.clone());
                        }
                        Outcome::Report { blocks, .. } => {
                            sink.outcome(format!("{}:{mode}:accepted", kit.grammar));
                            sink.fail(
                                format!("C12:silent-accept:{what}:{mode}"),
                                format!("{mode}, files {:?}: tag #{si} {damage:?} leaves the tags unbalanced but the run succeeded with {} blocks\n--- {file} ---\n{text}", files.iter().map(|f| f.0.as_str()).collect::<Vec<_>>(), blocks.len()),
                                input.clone(),
                            );
                        }
                        Outcome::Panic { message } => {
                            sink.outcome(format!("{}:{mode}:panic", kit.grammar));
                            sink.fail(format!("C12:panic:{}", first_line(message)), format!("{mode}: panic {message}\n--- {file} ---\n{text}"), input.clone());
                        }
                    }
                }
            }
        }
    }
    // Stray tags in a comment of their own, appended to the healthy file: an end tag written with
    // inner whitespace (its comment holds neither `<block` nor `</block`), and a bare start tag.
    let form = kit.forms.iter().find(|f| f.kind != langkit::FormKind::Decorated).unwrap_or(&kit.forms[0]);
    for stray in ["</ block>", "< /block >", "<block>", "</block>"] {
        let comment = match form.kind {
            langkit::FormKind::Line => format!("{} {stray}", form.open),
            langkit::FormKind::Md => format!("\n[//]: # {}{stray}{}\n", form.open, form.close),
            _ => format!("{} {stray} {}", form.open, form.close),
        };
        let at = rendered.text.len() - kit.epilogue.len();
        let text = format!("{}{comment}\n{}", &rendered.text[..at], &rendered.text[at..]);
        for mode in ["scan", "list", "diff"] {
            sink.exec();
            let outcome = run_mode(vec![(file.to_string(), text.clone())], file, &text, mode);
            match &outcome {
                Outcome::Error { stage, message, .. } if *stage == "parse" && message.contains(file) => sink.outcome(format!("{}:{mode}:stray-error", kit.grammar)),
                other => {
                    sink.outcome(format!("{}:{mode}:stray-accepted", kit.grammar));
                    sink.fail(
                        format!("C12:stray-tag-accepted:{}:{mode}", if stray.contains('/') { "end-tag" } else { "start-tag" }),
                        format!("{mode}: a comment holding only `{stray}` was appended, which unbalances the file, but the outcome is {}\n--- {file} ---\n{text}", other.to_json()),
                        input.clone(),
                    );
                }
            }
        }
    }
    sink.nontrivial();
    if segs.len() >= 2 {
        sink.sample(|| json!({"input": input, "healthy_text": rendered.text, "tags": rendered.tag_sites.len()}));
    }
}

struct C12Space {
    kit: &'static Kit,
    file: &'static str,
    alphabet: Vec<Seg>,
    max_len: usize,
}

impl Space for C12Space {
    type State = Vec<u16>;
    fn init(&self) -> Vec<Vec<u16>> {
        vec![Vec::new()]
    }
    fn succ(&self, state: &Vec<u16>) -> Vec<Vec<u16>> {
        if state.len() >= self.max_len {
            return Vec::new();
        }
        let segs: Vec<Seg> = state.iter().map(|&i| self.alphabet[i as usize]).collect();
        let families = Renderer::open_families(self.kit, &segs);
        self.alphabet
            .iter()
            .enumerate()
            .filter(|(_, s)| Renderer::applicable(self.kit, &families, MAX_NESTING, false, segs.last(), s))
            .map(|(i, _)| {
                let mut next = state.clone();
                next.push(i as u16);
                next
            })
            .collect()
    }
    fn check(&self, state: &Vec<u16>, sink: &Sink) {
        let segs: Vec<Seg> = state.iter().map(|&i| self.alphabet[i as usize]).collect();
        check_segs(self.kit, self.file, &segs, sink);
    }
}

/// A smaller alphabet than C03's: one layout per (form, tag kind) plus the multi-line ones for
/// start tags, no decoys beyond the first.
fn alphabet(kit: &Kit, rich: bool) -> Vec<Seg> {
    langkit::alphabet(kit, rich)
        .into_iter()
        .filter(|s| match s {
            Seg::Code(i) => *i == 0,
            Seg::Decoy(i) => *i == 0,
            Seg::Comment { layout, tags, .. } => {
                *tags != Tags::None
                    && match layout {
                        langkit::Layout::Bare => true,
                        langkit::Layout::Multi(1) => rich || *tags == Tags::Open,
                        langkit::Layout::Noisy => rich,
                        _ => false,
                    }
            }
        })
        .collect()
}

pub fn run(cfg: &Cfg, sink: &Arc<Sink>) -> Report {
    let mut report = Report::new("states = well-nested files of the C03 construction space; in every state each single tag is deleted, duplicated, or lost with its comment, and a stray tag (end tag with inner whitespace, bare start tag, plain end tag) is appended in a comment of its own; the damaged file is placed alone / first / last / between healthy files and run in scan, list, diff, diff+glob and diff + non-matching glob mode through the real code; the run must fail at parsing with an error that names the damaged file; non-trivial = every state holding at least one tag");
    report.assume("the all-lines-added diff emitter equals git's output (validated against real git on a slice before the search)");
    // Validate the diff emitter against real git.
    for (path, content) in [("x.py", "# <block>\na\n# </block>\n"), ("d/x.rs", "// one line without newline"), ("e.md", "\n\n"), ("sp ace.c", "/* <block> */\n")] {
        if let Some(diff) = cli::validate_new_file_diff(path, content) {
            sink.machinery(format!("new-file diff emitter disagrees with git for {path}: {diff}"));
            return report;
        }
    }
    let max_len = cfg.tier.pick(2, 3);
    for kit in KITS {
        let alphabet = alphabet(kit, cfg.tier == Tier::Thorough);
        for (fi, file) in kit.files.iter().enumerate() {
            let len = if fi == 0 { max_len } else { max_len - 1 };
            report.phase(engine::explore(
                &format!("{} ({})", kit.grammar, file),
                &format!("all segment sequences of length ≤{len} over {} segments × every tag × 3 damages × 4 placements × modes", alphabet.len()),
                C12Space { kit, file, alphabet: alphabet.clone(), max_len: len },
                sink,
                cfg.threads,
                false,
            ));
        }
    }
    let n = cli_slice(cfg, sink);
    report.phase(crate::core::Phase { name: "real CLI".into(), states: n, transitions: n, max_depth: 1, exhaustive: true, bound: "39 suffixes × {alone, next to a healthy file} × {scan, list, diff, list+diff}".into() });
    report
}

/// CLI slice: per suffix one healthy file with its last end tag deleted, alone and next to a
/// healthy file, in scan, list and diff mode through the real binary: non-zero status, an error
/// naming the file on stderr, nothing reported as success.
fn cli_slice(cfg: &Cfg, sink: &Sink) -> u64 {
    let repo = crate::cli::Scratch::repo("c12cli");
    let mut n = 0;
    for kit in KITS {
        for file in kit.files {
            let open = Seg::Comment { form: 0, layout: langkit::Layout::Bare, tags: Tags::Open };
            let rendered = c03::render(kit, &[open, Seg::Code(0)], false);
            let at = rendered.text.rfind("</block>").expect("auto-closed");
            let text = format!("{}{}", &rendered.text[..at], &rendered.text[at + 8..]);
            // Placement: alone, next to a healthy file, and as a symbolic link to a file that lives
            // in a hidden directory (the damaged file is in the tree only through the link).
            for placement in 0..3u8 {
                let with_healthy = placement == 1;
                repo.clear();
                if placement == 2 {
                    repo.write(".real/target.txt", &text);
                    std::os::unix::fs::symlink(".real/target.txt", repo.dir.join(file)).expect("symlink");
                } else {
                    repo.write(file, &text);
                }
                if with_healthy {
                    repo.write(HEALTHY[0].0, HEALTHY[0].1);
                }
                let diff = cli::new_file_diff(file, &text);
                for (mode, args, stdin) in [("scan", vec![], None), ("list", vec!["list"], None), ("diff", vec![], Some(diff.as_str())), ("list+diff", vec!["list"], Some(diff.as_str()))] {
                    n += 1;
                    sink.exec();
                    let run = cli::blockwatch(&cfg.bin, &repo.dir, &args, stdin, &[], 30);
                    let input = json!({"cli": true, "file": file, "mode": mode, "placement": placement});
                    let mode = if placement == 2 { format!("{mode}:symlinked") } else { mode.to_string() };
                    sink.outcome(format!("cli:{mode}:{:?}", run.code));
                    if run.panicked() || run.timed_out {
                        sink.fail(format!("C12:cli:crash:{}", kit.grammar), format!("{file} {mode}: {}", run.summary()), input);
                    } else if run.code == Some(0) || !run.stdout.trim().is_empty() {
                        sink.fail(format!("C12:cli:silent-accept:{}:{mode}", kit.grammar), format!("{file} lacks an end tag but {mode} gives {}\n--- {file} ---\n{text}", run.summary()), input);
                    } else if !run.stderr.contains(file) {
                        sink.fail(format!("C12:cli:error-does-not-name-file:{}", kit.grammar), format!("{file} {mode}: {}", run.summary()), input);
                    }
                }
            }
        }
    }
    n
}

pub fn replay(cfg: &Cfg, input: &Value, sink: &Arc<Sink>) {
    if input.get("cli").is_some() {
        cli_slice(cfg, sink);
        return;
    }
    let Some(kit) = input["grammar"].as_str().and_then(langkit::kit) else {
        sink.machinery("replay: unknown grammar");
        return;
    };
    let file = input["file"].as_str().unwrap_or(kit.files[0]).to_string();
    let segs: Vec<Seg> = input["segs"].as_array().map(|a| a.iter().filter_map(langkit::seg_from_json).collect()).unwrap_or_default();
    check_segs(kit, &file, &segs, sink);
}
