//! C03: blocks are exactly the tag pairs written in comments, in every language.
//! E1 over file construction: states are sequences of kit segments; every state renders (LF and
//! CRLF) to a balanced source file whose blocks are known by construction.

use crate::core::{Cfg, Report, Sink, Tier};
use crate::engine::{self, Space};
use crate::librun::{self, Input, Outcome};
use crate::props::langkit::{self, Kit, Rendered, Renderer, Seg, KITS};
use crate::props::rules::first_line;
use blockwatch::verif_hooks::BlockDump;
use serde_json::{Value, json};
use std::sync::Arc;

pub const MAX_NESTING: usize = 3;

pub fn render(kit: &Kit, segs: &[Seg], crlf: bool) -> Rendered {
    let mut r = Renderer::new(kit, crlf);
    for s in segs {
        r.seg(s);
    }
    r.finish()
}

fn strip_one_terminator(s: &str) -> &str {
    s.strip_prefix("\r\n").or_else(|| s.strip_prefix('\n')).or_else(|| s.strip_prefix('\r')).unwrap_or(s)
}

/// Compares the blocks the implementation found with the constructed ones. Returns
/// (fingerprint suffix, message) per disagreement.
pub fn compare(rendered: &Rendered, found: &[BlockDump], check_gt: bool) -> Vec<(String, String)> {
    let mut problems = Vec::new();
    if found.len() != rendered.blocks.len() {
        let names: Vec<String> = found.iter().map(|b| format!("{:?}@{}:{}", b.attributes, b.start_tag_start.0, b.start_tag_start.1)).collect();
        problems.push((
            if found.len() > rendered.blocks.len() { "extra-block".to_string() } else { "missing-block".to_string() },
            format!("expected {} blocks, found {}: {:?}", rendered.blocks.len(), found.len(), names),
        ));
        return problems;
    }
    for (i, (exp, got)) in rendered.blocks.iter().zip(found).enumerate() {
        let name = got.attributes.iter().find(|(k, _)| k == "name").map(|(_, v)| v.as_str());
        let has = |k: &str, v: &str| got.attributes.iter().any(|(gk, gv)| gk == k && gv == v);
        let unicode_ok = !exp.unicode || (has("größe", "") && has("ключ", "é1") && has("ref", "a#b//c"));
        let attributes_match = if exp.name.is_empty() { got.attributes.is_empty() } else { name == Some(exp.name.as_str()) && unicode_ok };
        if !attributes_match {
            problems.push(("wrong-order-or-attributes".into(), format!("block #{i}: expected name {} in source order, found attributes {:?}", exp.name, got.attributes)));
            continue;
        }
        let pos = rendered.position(exp.lt);
        if got.start_tag_start != pos {
            problems.push(("wrong-position".into(), format!("block {}: `<` is at line {} byte column {}, reported {}:{}", exp.name, pos.0, pos.1, got.start_tag_start.0, got.start_tag_start.1)));
        }
        if check_gt {
            let pos = rendered.position(exp.gt);
            if got.start_tag_end != pos {
                problems.push(("wrong-end-position".into(), format!("block {}: `>` is at line {} byte column {}, reported {}:{}", exp.name, pos.0, pos.1, got.start_tag_end.0, got.start_tag_end.1)));
            }
        }
        let want = rendered.content(exp);
        // Don't care: one leading line terminator (grammars differ on whether a line comment owns it).
        // (or only the `\r` of a CRLF when the comment node swallows it).
        let acceptable = [want, strip_one_terminator(want), want.strip_prefix('\r').unwrap_or(want)];
        if !acceptable.contains(&got.content.as_str()) {
            problems.push(("wrong-content".into(), format!("block {}: content should be {:?}, is {:?}", exp.name, want, got.content)));
        }
    }
    problems
}

pub fn run_list(file: &str, text: &str) -> Outcome {
    librun::run(&Input { files: vec![(file.to_string(), text.to_string())], list_only: true, ..Default::default() })
}

pub struct C03Space {
    pub kit: &'static Kit,
    pub file: &'static str,
    pub alphabet: Vec<Seg>,
    pub max_len: usize,
    pub cross_family: bool,
}

impl C03Space {
    fn segs(&self, state: &[u16]) -> Vec<Seg> {
        state.iter().map(|&i| self.alphabet[i as usize]).collect()
    }
}

/// tree-sitter-kotlin-ng loses every comment that follows `val …` NEWLINE(s) `/* … */ val …`
/// (a block comment followed by a `val` declaration on the same line, after an earlier `val`
/// declaration that has no semicolon). Inputs of that shape get their own fingerprint class so
/// that the known finding covers exactly them.
fn kotlin_val_blockcomment_val(kit: &Kit, segs: &[Seg]) -> bool {
    if kit.grammar != "kotlin" {
        return false;
    }
    let is_val = |s: &Seg| matches!(s, Seg::Code(0) | Seg::Decoy(_));
    (0..segs.len()).any(|i| {
        matches!(segs[i], Seg::Comment { layout: langkit::Layout::SameLine, .. })
            && segs.get(i + 1).is_some_and(is_val)
            && segs[..i].iter().any(is_val)
    })
}

pub fn check_segs(kit: &'static Kit, file: &str, segs: &[Seg], cross_family: bool, sink: &Sink) {
    let quirk = if kotlin_val_blockcomment_val(kit, segs) { ":val-NL-blockcomment-val" } else { "" };
    let input = json!({"grammar": kit.grammar, "file": file, "cross_family": cross_family, "segs": segs.iter().map(langkit::seg_json).collect::<Vec<_>>()});
    let mut nontrivial = false;
    for crlf in [false, true] {
        let rendered = render(kit, segs, crlf);
        nontrivial |= !rendered.blocks.is_empty();
        sink.exec();
        let outcome = run_list(file, &rendered.text);
        let eol = if crlf { "crlf" } else { "lf" };
        let tag = format!("{}{quirk}", if cross_family { ":cross-family" } else { "" });
        match &outcome {
            Outcome::Report { blocks, .. } => {
                let problems = compare(&rendered, blocks, false);
                sink.outcome(format!("{}:blocks={}:{}", kit.grammar, blocks.len().min(3), if problems.is_empty() { "agree" } else { "differ" }));
                for (kind, msg) in problems {
                    sink.fail(format!("C03:{}:{kind}{tag}", kit.grammar), format!("{} ({eol})\n{}\n--- file ---\n{}", file, msg, rendered.text), input.clone());
                }
            }
            Outcome::Error { message, .. } => {
                sink.outcome(format!("{}:error", kit.grammar));
                sink.fail(format!("C03:{}:error-on-balanced-file{tag}", kit.grammar), format!("{file} ({eol}): {}\n--- file ---\n{}", first_line(message), rendered.text), input.clone());
            }
            Outcome::Panic { message } => {
                sink.outcome(format!("{}:panic", kit.grammar));
                sink.fail(format!("C03:{}:panic:{}", kit.grammar, first_line(message)), format!("{file} ({eol}): panic {message}\n--- file ---\n{}", rendered.text), input.clone());
            }
        }
    }
    if nontrivial {
        sink.nontrivial();
    }
    if segs.len() >= 3 {
        sink.sample(|| json!({"input": input, "lf_text": render(kit, segs, false).text}));
    }
}

impl Space for C03Space {
    type State = Vec<u16>;
    fn init(&self) -> Vec<Vec<u16>> {
        vec![Vec::new()]
    }
    fn succ(&self, state: &Vec<u16>) -> Vec<Vec<u16>> {
        if state.len() >= self.max_len {
            return Vec::new();
        }
        let segs = self.segs(state);
        let families = Renderer::open_families(self.kit, &segs);
        self.alphabet
            .iter()
            .enumerate()
            .filter(|(_, s)| Renderer::applicable(self.kit, &families, MAX_NESTING, self.cross_family, segs.last(), s))
            .map(|(i, _)| {
                let mut next = state.clone();
                next.push(i as u16);
                next
            })
            .collect()
    }
    fn check(&self, state: &Vec<u16>, sink: &Sink) {
        check_segs(self.kit, self.file, &self.segs(state), self.cross_family, sink);
    }
}

/// CLI slice: the same construction through the real binary — `list` JSON (name, line, column,
/// attributes, order) and the content as a `check-lua` script with `check-lua-pattern="[\s\S]*"` (the
/// parenthesis-free spelling of `(?s).*`, which a Markdown `( )` title can hold)
/// receives it (the property's two observation points).
fn cli_slice(cfg: &Cfg, kit: &'static Kit, segs: &[Seg], echo: &str, sink: &Sink) {
    use crate::cli;
    thread_local! { static REPO: cli::Scratch = cli::Scratch::repo("c03cli"); }
    let file = kit.files[0];
    let mut r = Renderer::new(kit, false);
    r.extra_attrs = format!(" check-lua=\"{echo}\" check-lua-pattern=\"[\\s\\S]*\"");
    for s in segs {
        r.seg(s);
    }
    let rendered = r.finish();
    if rendered.blocks.is_empty() {
        return;
    }
    let input = json!({"cli": true, "grammar": kit.grammar, "segs": segs.iter().map(langkit::seg_json).collect::<Vec<_>>()});
    REPO.with(|repo| {
        repo.clear();
        repo.write(file, &rendered.text);
        sink.execs(2);
        let list = cli::blockwatch(&cfg.bin, &repo.dir, &["list"], None, &[], 30);
        let run = cli::blockwatch(&cfg.bin, &repo.dir, &[], None, &[], 30);
        let describe = |extra: &str| format!("{file}: {extra}\n--- file ---\n{}", rendered.text);
        let listed: Value = serde_json::from_str(&list.stdout).unwrap_or(Value::Null);
        let items = listed[file].as_array().cloned().unwrap_or_default();
        let mut ok = list.code == Some(0) && items.len() == rendered.blocks.len();
        if ok {
            for (exp, got) in rendered.blocks.iter().zip(&items) {
                let pos = rendered.position(exp.lt);
                let name_ok = if exp.name.is_empty() { got["name"] == "(unnamed)" } else { got["name"] == exp.name.as_str() && got["attributes"]["name"] == exp.name.as_str() };
                ok &= name_ok && got["line"].as_u64() == Some(pos.0 as u64) && got["column"].as_u64() == Some(pos.1 as u64) && got["attributes"]["check-lua"] == echo;
            }
        }
        sink.outcome(format!("cli:{}:list:{}", kit.grammar, if ok { "agree" } else { "differ" }));
        if !ok {
            sink.fail(format!("C03:cli:list-differs:{}", kit.grammar), describe(&format!("`list` prints {}", list.stdout)), input.clone());
        }
        // Content: one check-lua diagnostic per block carrying "[" + content + "]".
        match run.diags() {
            Ok(diags) => {
                for exp in rendered.blocks.iter().filter(|b| !b.name.is_empty()) {
                    let pos = rendered.position(exp.lt);
                    let want = rendered.content(exp);
                    let got = diags.iter().find(|d| d.code == "check-lua" && d.range.0 == pos.0 as u64 && d.range.1 == pos.1 as u64).and_then(|d| d.data.get("lua_error").and_then(Value::as_str).map(str::to_string));
                    let acceptable = [format!("[{want}]"), format!("[{}]", want.strip_prefix('\n').unwrap_or(want))];
                    if !got.as_ref().is_some_and(|g| acceptable.contains(g)) {
                        sink.fail(format!("C03:cli:content-differs:{}", kit.grammar), describe(&format!("block {} should receive content {want:?}, the script got {got:?}", exp.name)), input.clone());
                    }
                }
            }
            Err(e) => sink.fail(format!("C03:cli:unreadable-report:{}", kit.grammar), describe(&e), input.clone()),
        }
    });
}

struct CliSpace {
    cfg: Cfg,
    kit: &'static Kit,
    alphabet: Vec<Seg>,
    echo: String,
}

impl Space for CliSpace {
    type State = Vec<u16>;
    fn init(&self) -> Vec<Vec<u16>> {
        vec![Vec::new()]
    }
    fn succ(&self, state: &Vec<u16>) -> Vec<Vec<u16>> {
        if state.len() >= 2 {
            return Vec::new();
        }
        let segs: Vec<Seg> = state.iter().map(|&i| self.alphabet[i as usize]).collect();
        let families = Renderer::open_families(self.kit, &segs);
        self.alphabet
            .iter()
            .enumerate()
            .filter(|(_, s)| Renderer::applicable(self.kit, &families, MAX_NESTING, false, segs.last(), s))
            .map(|(i, _)| {
                let mut next = state.clone();
                next.push(i as u16);
                next
            })
            .collect()
    }
    fn check(&self, state: &Vec<u16>, sink: &Sink) {
        let segs: Vec<Seg> = state.iter().map(|&i| self.alphabet[i as usize]).collect();
        cli_slice(&self.cfg, self.kit, &segs, &self.echo, sink);
    }
}

/// Kit self-test: every tag-free segment alone (and all of them together) yields no block, no error.
pub fn kit_self_test(sink: &Sink) -> bool {
    let mut ok = true;
    for kit in KITS {
        for file in kit.files {
            let mut segs: Vec<Seg> = Vec::new();
            for s in langkit::alphabet(kit, true) {
                if let Seg::Comment { tags, .. } = s {
                    if tags != langkit::Tags::None {
                        continue;
                    }
                }
                segs.push(s);
            }
            let mut cases: Vec<Vec<Seg>> = segs.iter().map(|s| vec![*s]).collect();
            cases.push(segs.clone());
            for case in cases {
                for crlf in [false, true] {
                    let rendered = render(kit, &case, crlf);
                    match run_list(file, &rendered.text) {
                        Outcome::Report { blocks, .. } if blocks.is_empty() => {}
                        other => {
                            sink.machinery(format!("kit self-test failed for {file} (crlf={crlf}): tag-free file {:?} gives {}", rendered.text, other.to_json()));
                            ok = false;
                        }
                    }
                }
            }
        }
    }
    ok
}

fn echo_script() -> &'static str {
    static S: std::sync::OnceLock<(crate::cli::Scratch, String)> = std::sync::OnceLock::new();
    &S.get_or_init(|| {
        let s = crate::cli::Scratch::new("c03echo");
        s.write("echo.lua", "function validate(ctx, content)\n  return \"[\" .. content .. \"]\"\nend\n");
        let p = s.path("echo.lua").display().to_string();
        (s, p)
    })
    .1
}

pub fn run(cfg: &Cfg, sink: &Arc<Sink>) -> Report {
    let mut report = Report::new("states = sequences of construction-kit segments (code line, string/markup decoy holding tag text, plain comment, start/end tag at an offset of a 1- or 3-line comment of every comment form of the language, start+end in one comment, end+start in one comment), nesting ≤3; every state is closed into a balanced file, rendered with LF and with CRLF, parsed by the real code (`list` path) and compared with the blocks known by construction (attributes, line and byte column of `<`, content, source order); non-trivial = the file holds at least one block");
    report.assume("tree-sitter grammars are trusted to parse the kit's well-formed scaffolds (kit self-test: every tag-free segment yields no block and no error)");
    report.assume("don't care: one leading line terminator of a block's content");
    if !kit_self_test(sink) {
        return report;
    }
    if cfg.tier == Tier::Thorough {
        report.cap("thorough: Markdown sequences of length ≤3 (rich alphabet), every other grammar ≤4");
    }
    let (len_main, len_all) = match cfg.tier {
        Tier::Quick => (3, 2),
        Tier::Thorough => (4, 3),
    };
    for kit in KITS {
        let alphabet = langkit::alphabet(kit, cfg.tier == Tier::Thorough);
        let n = alphabet.len();
        // Markdown is parsed twice (block structure, then every HTML block) and has seven comment
        // forms: its sequences stay at length 3 in the thorough tier too (over the rich alphabet).
        let len_main = if kit.blank_between { 3 } else { len_main };
        report.phase(engine::explore(
            &format!("{} ({})", kit.grammar, kit.files[0]),
            &format!("all segment sequences of length ≤{len_main} over {n} segments, nesting ≤{MAX_NESTING}, LF+CRLF"),
            C03Space { kit, file: kit.files[0], alphabet: alphabet.clone(), max_len: len_main, cross_family: false },
            sink,
            cfg.threads,
            false,
        ));
        for file in &kit.files[1..] {
            report.phase(engine::explore(
                &format!("{} ({})", kit.grammar, file),
                &format!("all segment sequences of length ≤{len_all} over {n} segments, LF+CRLF"),
                C03Space { kit, file, alphabet: alphabet.clone(), max_len: len_all, cross_family: false },
                sink,
                cfg.threads,
                false,
            ));
        }
        // CLI slice over a reduced alphabet (bare layouts, every tag set, one code line, one decoy).
        let cli_alphabet: Vec<Seg> = alphabet
            .iter()
            .copied()
            .filter(|s| match s {
                Seg::Code(i) | Seg::Decoy(i) => *i == 0,
                Seg::Comment { layout, tags, .. } => matches!(tags, langkit::Tags::Open | langkit::Tags::Close | langkit::Tags::Pair | langkit::Tags::CloseOpen) && matches!(layout, langkit::Layout::Bare | langkit::Layout::Multi(1)),
            })
            .collect();
        report.phase(engine::explore(
            &format!("{} CLI slice (list JSON + echoed content)", kit.grammar),
            &format!("all segment sequences of length ≤2 over {} segments through the real binary", cli_alphabet.len()),
            CliSpace { cfg: cfg.clone(), kit, alphabet: cli_alphabet, echo: echo_script().to_string() },
            sink,
            cfg.threads,
            false,
        ));
        if kit.forms.iter().any(|f| f.family != 0) {
            report.phase(engine::explore(
                &format!("{} cross-family pairs ({})", kit.grammar, kit.files[0]),
                &format!("all segment sequences of length ≤{len_main} where an end tag may sit in a comment of the other family"),
                C03Space { kit, file: kit.files[0], alphabet, max_len: len_main, cross_family: true },
                sink,
                cfg.threads,
                false,
            ));
        }
    }
    report
}

pub fn replay(cfg: &Cfg, input: &Value, sink: &Arc<Sink>) {
    let Some(kit) = input["grammar"].as_str().and_then(langkit::kit) else {
        sink.machinery("replay: unknown grammar");
        return;
    };
    if input.get("cli").is_some() {
        let segs: Vec<Seg> = input["segs"].as_array().map(|a| a.iter().filter_map(langkit::seg_from_json).collect()).unwrap_or_default();
        cli_slice(cfg, kit, &segs, echo_script(), sink);
        return;
    }
    let file = input["file"].as_str().unwrap_or(kit.files[0]).to_string();
    let segs: Vec<Seg> = input["segs"].as_array().map(|a| a.iter().filter_map(langkit::seg_from_json).collect()).unwrap_or_default();
    check_segs(kit, &file, &segs, input["cross_family"].as_bool().unwrap_or(false), sink);
}
