//! Construction kits: inputs are *built* from parts, so the expected blocks are known by
//! construction and never read back from the implementation.

/// A Python-hosted file made of blocks whose tags sit in their own one-line `#` comments.
/// (Python keeps every `#` comment an independent node whatever the surrounding lines hold —
/// strings cannot span lines — so arbitrary one-line payloads never disturb the tags.)
#[derive(Default, Clone)]
pub struct Batch {
    text: String,
    next_line: usize,
    pub blocks: Vec<BatchBlock>,
}

#[derive(Clone, Debug)]
pub struct BatchBlock {
    /// 1-based line of the start tag comment.
    pub tag_line: usize,
    /// 1-based line of the end tag comment.
    pub end_line: usize,
    pub attrs: String,
    pub lines: Vec<String>,
}

impl Batch {
    pub fn new() -> Self {
        Self { text: String::new(), next_line: 1, blocks: Vec::new() }
    }
    pub fn raw_line(&mut self, line: &str) {
        debug_assert!(!line.contains('\n'));
        self.text.push_str(line);
        self.text.push('\n');
        self.next_line += 1;
    }
    /// Appends a block and returns its index.
    pub fn block(&mut self, attrs: &str, lines: &[String]) -> usize {
        let tag_line = self.next_line;
        let tag = if attrs.is_empty() { "# <block>".to_string() } else { format!("# <block {attrs}>") };
        self.raw_line(&tag);
        for l in lines {
            self.raw_line(l);
        }
        let end_line = self.next_line;
        self.raw_line("# </block>");
        self.blocks.push(BatchBlock { tag_line, end_line, attrs: attrs.to_string(), lines: lines.to_vec() });
        self.blocks.len() - 1
    }
    pub fn text(&self) -> &str {
        &self.text
    }
    /// Index of the block whose lines (tag line ..= end line) contain `line`.
    pub fn block_at(&self, line: usize) -> Option<usize> {
        self.blocks.iter().position(|b| b.tag_line <= line && line <= b.end_line)
    }
    /// Index of the block whose start tag is on `line`.
    pub fn block_with_tag_at(&self, line: usize) -> Option<usize> {
        self.blocks.iter().position(|b| b.tag_line == line)
    }
}

/// Quotes an attribute value with the quote character it does not contain.
pub fn quote(value: &str) -> String {
    if value.contains('"') { format!("'{value}'") } else { format!("\"{value}\"") }
}
