//! Construction kits: inputs are *built* from parts, so the expected blocks are known by
//! construction and never read back from the implementation.

/// A Python-hosted file made of blocks whose tags sit in their own one-line `#` comments.
/// (Python keeps every `#` comment an independent node whatever the surrounding lines hold —
/// strings cannot span lines — so arbitrary one-line payloads never disturb the tags.)
#[derive(Default, Clone)]
pub struct Batch {
    text: String,
    next_line: usize,
    pub blocks: Vec<BatchBlock>,
    /// Companion blocks (other validators' violating blocks that share the file): attributes'
    /// diagnostic code and the line range of the block. Not part of `blocks`.
    pub companions: Vec<(String, usize, usize)>,
    host: BatchHost,
}

/// How the tags of a batch are hosted.
#[derive(Default, Clone, Copy, Debug, PartialEq, Eq)]
pub enum BatchHost {
    /// `# <block …>` in a Python file.
    #[default]
    Py,
    /// Markdown: the start tag sits on the first line of a three-line HTML comment (the comment
    /// goes on for two lines after the tag), the end tag in a one-line HTML comment after a blank
    /// line.
    MdMulti,
    /// Python, but the end tag's comment shares the line of the last content line
    /// (`last  # </block>`): the content does not end with a line break.
    PyEndShared,
}

#[derive(Clone, Debug)]
pub struct BatchBlock {
    /// 1-based line of the start tag comment.
    pub tag_line: usize,
    /// 1-based line of the end tag comment.
    pub end_line: usize,
    /// 1-based line of the first content line given to `block`.
    pub first_content_line: usize,
    pub attrs: String,
    pub lines: Vec<String>,
}

impl Batch {
    pub fn new() -> Self {
        Self { text: String::new(), next_line: 1, blocks: Vec::new(), companions: Vec::new(), host: BatchHost::Py }
    }
    pub fn with_host(host: BatchHost) -> Self {
        let mut b = Self::new();
        b.host = host;
        if host == BatchHost::MdMulti {
            b.raw_line("# Title");
            b.raw_line("");
        }
        b
    }
    pub fn file_name(&self) -> &'static str {
        match self.host {
            BatchHost::Py | BatchHost::PyEndShared => "x.py",
            BatchHost::MdMulti => "x.md",
        }
    }
    pub fn raw_line(&mut self, line: &str) {
        debug_assert!(!line.contains('\n'));
        self.text.push_str(line);
        self.text.push('\n');
        self.next_line += 1;
    }
    /// Appends a block and returns its index.
    pub fn block(&mut self, attrs: &str, lines: &[String]) -> usize {
        let (tag_line, first_content_line, end_line) = self.write_block(attrs, lines);
        self.blocks.push(BatchBlock { tag_line, end_line, first_content_line, attrs: attrs.to_string(), lines: lines.to_vec() });
        self.blocks.len() - 1
    }
    fn write_block(&mut self, attrs: &str, lines: &[String]) -> (usize, usize, usize) {
        let tag_line = self.next_line;
        let tag = if attrs.is_empty() { "<block>".to_string() } else { format!("<block {attrs}>") };
        match self.host {
            BatchHost::Py | BatchHost::PyEndShared => self.raw_line(&format!("# {tag}")),
            BatchHost::MdMulti => {
                self.raw_line(&format!("<!-- {tag}"));
                self.raw_line("     the comment goes on");
                self.raw_line("-->");
            }
        }
        let first_content_line = self.next_line;
        let shared = self.host == BatchHost::PyEndShared && !lines.is_empty();
        for (i, l) in lines.iter().enumerate() {
            if shared && i + 1 == lines.len() {
                self.raw_line(&format!("{l}  # </block>"));
            } else {
                self.raw_line(l);
            }
        }
        let end_line = match self.host {
            BatchHost::Py | BatchHost::PyEndShared if shared => self.next_line - 1,
            BatchHost::Py | BatchHost::PyEndShared => {
                self.raw_line("# </block>");
                self.next_line - 1
            }
            BatchHost::MdMulti => {
                self.raw_line("");
                self.raw_line("<!-- </block> -->");
                self.raw_line("");
                self.next_line - 2
            }
        };
        (tag_line, first_content_line, end_line)
    }
    /// Appends a block of another validator that is violated by construction; `code` is the
    /// diagnostic code it must produce exactly once.
    pub fn companion(&mut self, code: &str, attrs: &str, lines: &[&str]) {
        let lines: Vec<String> = lines.iter().map(|l| l.to_string()).collect();
        let (tag_line, _, end_line) = self.write_block(attrs, &lines);
        self.companions.push((code.to_string(), tag_line, end_line));
    }
    /// Index of the companion whose lines contain `line`.
    pub fn companion_at(&self, line: usize) -> Option<usize> {
        self.companions.iter().position(|c| c.1 <= line && line <= c.2)
    }
    pub fn text(&self) -> &str {
        &self.text
    }
    /// Index of the block whose lines (tag line ..= end line) contain `line`.
    pub fn block_at(&self, line: usize) -> Option<usize> {
        self.blocks.iter().position(|b| b.tag_line <= line && line <= b.end_line)
    }
    /// Index of the block whose start tag is on `line`.
    pub fn block_with_tag_at(&self, line: usize) -> Option<usize> {
        self.blocks.iter().position(|b| b.tag_line == line)
    }
}

/// Quotes an attribute value with the quote character it does not contain.
pub fn quote(value: &str) -> String {
    if value.contains('"') { format!("'{value}'") } else { format!("\"{value}\"") }
}
