//! C14: --enable/--disable select validators without side effects. E1 over repositories (which of
//! the seven validators have a violating block × layout) × every subset of validators given to
//! -d and to -e × block-map orders (library), plus the real CLI for flag parsing and rejection.

use crate::cli::{self, Scratch};
use crate::core::{Cfg, Phase, Report, Sink, permutations};
use crate::engine::{self, Grid};
use crate::fakeai::FakeAi;
use crate::librun::{self, Input, Outcome};
use crate::props::c18;
use crate::props::rules::first_line;
use serde_json::{Value, json};
use std::sync::Arc;
use std::sync::atomic::{AtomicU64, Ordering};

pub const VALIDATORS: [&str; 7] = ["affects", "keep-sorted", "keep-unique", "line-pattern", "line-count", "check-ai", "check-lua"];
static NONCE: AtomicU64 = AtomicU64::new(0);

thread_local! {
    static KIT: c18::Kit = c18::Kit::new();
}

#[derive(Clone, Debug, PartialEq, Eq, Hash)]
struct Case {
    /// Bit i: validator i has a violating block.
    mask: u8,
    /// 0: one block per validator in one file, in table order; 1: the same blocks in reverse order
    /// spread over two files; 2: two rules per block.
    layout: u8,
    /// true: the flag set goes to --enable, false: to --disable.
    enable: bool,
    flags: u8,
}

struct Repo {
    files: Vec<(String, String)>,
    /// Codes expected without any flag (one diagnostic each), with their severity.
    codes: Vec<&'static str>,
    severities: Vec<u64>,
    nonce: String,
}

/// Blocks holding keep-unique or line-count carry `severity="warning"`, so that the status is
/// decided by *which* diagnostics remain.
fn is_warning_block(validators: &[usize]) -> bool {
    validators.iter().any(|v| *v == 2 || *v == 4)
}

fn build(kit: &c18::Kit, mask: u8, layout: u8) -> Repo {
    let nonce = format!("c14n{}", NONCE.fetch_add(1, Ordering::Relaxed));
    let attrs_of = |v: usize| -> String {
        match v {
            0 => "name=\"af\" affects=\":missing\"".to_string(),
            1 => "keep-sorted".to_string(),
            2 => "keep-unique".to_string(),
            3 => "line-pattern=\"^[a-z0-9 =]+$\"".to_string(),
            4 => "line-count=\"<1\"".to_string(),
            5 => format!("check-ai=\"case={nonce}-ai;reply=not-valid; be fine\""),
            _ => format!("id=\"lua\" check-lua=\"{}\"", kit.script(1)),
        }
    };
    // Content that violates sort, uniqueness and pattern at once; blocks only carry the rules asked for.
    let content = "b = 1\na = 1\na = 1\nzz = 1!";
    let present: Vec<usize> = (0..7).filter(|v| mask & (1 << v) != 0).collect();
    let mut blocks: Vec<String> = Vec::new();
    let mut severity_of = vec![1u64; 7];
    let groups: Vec<Vec<usize>> = if layout == 2 { present.chunks(2).map(|c| c.to_vec()).collect() } else { present.iter().map(|&v| vec![v]).collect() };
    for group in &groups {
        let mut attrs: Vec<String> = group.iter().map(|&v| attrs_of(v)).collect();
        if is_warning_block(group) {
            attrs.push("severity=\"warning\"".to_string());
            for &v in group {
                severity_of[v] = 2;
            }
        }
        blocks.push(format!("# <block {}>\n{content}\n# </block>\npad = 0\n", attrs.join(" ")));
    }
    let files = match layout {
        1 => {
            blocks.reverse();
            let half = blocks.len().div_ceil(2);
            let (a, b) = blocks.split_at(half);
            vec![("x.py".to_string(), a.concat()), ("d/y.py".to_string(), b.concat())].into_iter().filter(|f| !f.1.is_empty()).collect()
        }
        _ => vec![("x.py".to_string(), blocks.concat())].into_iter().filter(|f: &(String, String)| !f.1.is_empty()).collect(),
    };
    Repo { files, codes: present.iter().map(|&v| VALIDATORS[v]).collect(), severities: present.iter().map(|&v| severity_of[v]).collect(), nonce }
}

fn check_case(case: &Case, sink: &Sink) {
    KIT.with(|kit| {
        let repo = build(kit, case.mask, case.layout);
        if repo.files.is_empty() {
            return;
        }
        let flag_names: Vec<String> = (0..7).filter(|v| case.flags & (1 << v) != 0).map(|v| VALIDATORS[v].to_string()).collect();
        let input_json = json!({"mask": case.mask, "layout": case.layout, "enable": case.enable, "flags": case.flags});
        let mut expected: Vec<&str> = repo
            .codes
            .iter()
            .copied()
            .filter(|c| {
                let named = flag_names.iter().any(|f| f == c);
                if case.enable { flag_names.is_empty() || named } else { !named }
            })
            .collect();
        expected.sort();
        // Everything is in the diff (all lines added), so `affects` sees modified blocks.
        let diff: String = repo.files.iter().map(|(n, t)| cli::new_file_diff(n, t)).collect();
        let names: Vec<String> = repo.files.iter().map(|f| f.0.clone()).collect();
        for order in permutations(names.len()) {
            let map_order: Vec<String> = order.iter().map(|&i| names[i].clone()).collect();
            kit.reset_log();
            sink.exec();
            let outcome = librun::run(&Input {
                files: repo.files.clone(),
                diff: Some(diff.clone()),
                disabled: if case.enable { vec![] } else { flag_names.clone() },
                enabled: if case.enable { flag_names.clone() } else { vec![] },
                map_order: Some(map_order.clone()),
                ..Default::default()
            });
            let requests = FakeAi::global().take(&format!("{}-ai", repo.nonce)).len();
            let lua_calls = kit.calls().len();
            let describe = |extra: &str| format!("validators with a violating block {:?} (layout {}), {} {:?}, map order {map_order:?}: {extra}", repo.codes, case.layout, if case.enable { "--enable" } else { "--disable" }, flag_names);
            match &outcome {
                Outcome::Report { diags, .. } => {
                    let mut got: Vec<&str> = diags.iter().map(|d| d.code.as_str()).collect();
                    got.sort();
                    sink.outcome(format!("{}:{}", if case.enable { "enable" } else { "disable" }, if got == expected { "agree" } else { "differ" }));
                    if got != expected {
                        let lost: Vec<&&str> = expected.iter().filter(|c| !got.contains(c)).collect();
                        let extra: Vec<&&str> = got.iter().filter(|c| !expected.contains(c)).collect();
                        let kind = if !lost.is_empty() { format!("diagnostic-lost:{}", lost[0]) } else { format!("diagnostic-not-removed:{}", extra.first().map(|s| **s).unwrap_or("duplicate")) };
                        sink.fail(format!("C14:{kind}:{}", if case.enable { "enable" } else { "disable" }), describe(&format!("expected codes {expected:?}, got {got:?}")), input_json.clone());
                    }
                    let error_remains = repo.codes.iter().zip(&repo.severities).any(|(c, s)| *s == 1 && expected.contains(c));
                    if (outcome.exit_status() == 1) != error_remains {
                        sink.fail("C14:status", describe(&format!("exit status {} with expected codes {expected:?} (error severity among them: {error_remains})", outcome.exit_status())), input_json.clone());
                    }
                    // No side effects of validators that are switched off.
                    let ai_on = expected.contains(&"check-ai");
                    let lua_on = expected.contains(&"check-lua");
                    if requests != usize::from(ai_on) {
                        sink.fail("C14:side-effect:ai-request", describe(&format!("{requests} AI requests, check-ai {}", if ai_on { "on" } else { "off" })), input_json.clone());
                    }
                    if lua_calls != usize::from(lua_on) {
                        sink.fail("C14:side-effect:lua-call", describe(&format!("{lua_calls} Lua calls, check-lua {}", if lua_on { "on" } else { "off" })), input_json.clone());
                    }
                }
                Outcome::Error { message, .. } => sink.fail("C14:unexpected-error", describe(&first_line(message)), input_json.clone()),
                Outcome::Panic { message } => sink.fail(format!("C14:panic:{}", first_line(message)), describe(message), input_json.clone()),
            }
        }
        sink.nontrivial();
        if case.mask == 0b1111111 && case.flags.count_ones() == 2 {
            sink.sample(|| json!({"input": input_json, "files": repo.files, "expected_codes": expected}));
        }
    });
}

fn cli_slice(cfg: &Cfg, sink: &Sink) -> u64 {
    let kit = c18::Kit::new();
    let repo_files = build(&kit, 0b1011110, 0); // sorted, unique, pattern, count, lua (no diff, no AI)
    let repo = Scratch::repo("c14");
    for (n, t) in &repo_files.files {
        repo.write(n, t);
    }
    let mut n = 0;
    let all = ["keep-sorted", "keep-unique", "line-pattern", "line-count", "check-lua"];
    let cases: Vec<(Vec<&str>, Result<Vec<&str>, ()>, &str)> = vec![
        (vec![], Ok(all.to_vec()), "no flag"),
        (vec!["-d", "keep-sorted"], Ok(vec!["keep-unique", "line-pattern", "line-count", "check-lua"]), "-d one"),
        (vec!["-d", "keep-sorted", "-d", "line-count"], Ok(vec!["keep-unique", "line-pattern", "check-lua"]), "-d repeated composes as union"),
        (vec!["-d", "keep-sorted", "-d", "keep-sorted"], Ok(vec!["keep-unique", "line-pattern", "line-count", "check-lua"]), "-d same twice"),
        (vec!["--disable", "check-lua", "--disable=keep-unique"], Ok(vec!["keep-sorted", "line-pattern", "line-count"]), "--disable long forms"),
        (vec!["-e", "keep-sorted"], Ok(vec!["keep-sorted"]), "-e one"),
        (vec!["-e", "keep-sorted", "-e", "check-lua"], Ok(vec!["keep-sorted", "check-lua"]), "-e repeated composes as union"),
        (vec!["--enable=line-count", "--enable", "line-count"], Ok(vec!["line-count"]), "-e same twice"),
        (vec!["-e", "keep-unique", "-e", "line-count"], Ok(vec!["keep-unique", "line-count"]), "-e only warning-severity validators"),
        (vec!["-d", "keep-sorted", "-d", "line-pattern", "-d", "check-lua"], Ok(vec!["keep-unique", "line-count"]), "-d every error-severity validator"),
        (vec!["-e", "check-ai"], Ok(vec![]), "-e validator without blocks"),
        (vec!["-d", "affects", "-d", "check-ai"], Ok(all.to_vec()), "-d validators without blocks"),
        (vec!["-d", "line-count", "-d", "line-count", "-d", "line-count", "-d", "line-count", "-d", "line-count", "-d", "line-count", "-d", "line-count"], Ok(vec!["keep-sorted", "keep-unique", "line-pattern", "check-lua"]), "-d the same validator seven times (as many flags as validators)"),
        (vec!["-d", "line-count", "-d", "keep-unique", "-d", "line-count", "-d", "keep-unique", "-d", "line-count", "-d", "keep-unique", "-d", "line-count"], Ok(vec!["keep-sorted", "line-pattern", "check-lua"]), "-d two validators over seven flags"),
        (vec!["-e", "keep-sorted", "-e", "keep-sorted", "-e", "keep-sorted", "-e", "keep-sorted", "-e", "keep-sorted", "-e", "keep-sorted", "-e", "keep-sorted"], Ok(vec!["keep-sorted"]), "-e the same validator seven times"),
        (vec!["-d", "keep-sorted", "list", "-e", "line-count"], Err(()), "both flags, one before and one after `list`"),
        (vec!["-e", "keep-sorted", "list", "-d", "line-count"], Err(()), "both flags around `list`, the other way"),
        (vec!["list", "-e", "keep-sorted", "-d", "line-count"], Err(()), "both flags after `list`"),
        (vec!["-e", "keep-sorted", "-d", "line-count"], Err(()), "both flags"),
        (vec!["-d", "line-count", "-e", "line-count"], Err(()), "both flags, same validator"),
        (vec!["-d", "keep-sort"], Err(()), "unknown validator"),
        (vec!["-e", "Keep-Sorted"], Err(()), "unknown validator (case)"),
        (vec!["-e", ""], Err(()), "empty validator name"),
        (vec!["-d", "keep-sorted,line-count"], Err(()), "comma list is not a validator"),
        (vec!["-e", " keep-sorted"], Err(()), "padded validator name"),
    ];
    for (args, want, what) in cases {
        n += 1;
        let args: Vec<&str> = args;
        kit.reset_log();
        sink.exec();
        let run = cli::blockwatch(&cfg.bin, &repo.dir, &args, None, &[("BLOCKWATCH_LUA_MODE", "safe")], 30);
        let input = json!({"cli": args});
        let calls = kit.calls().len();
        if run.panicked() || run.timed_out {
            sink.fail("C14:cli:crash", format!("{what}: {}", run.summary()), input);
            continue;
        }
        match want {
            Ok(codes) => {
                let mut want_codes = codes.clone();
                want_codes.sort();
                match run.diags() {
                    Ok(diags) => {
                        let mut got: Vec<&str> = diags.iter().map(|d| d.code.as_str()).collect();
                        got.sort();
                        sink.outcome(format!("cli:{}", if got == want_codes { "agree" } else { "differ" }));
                        let error_remains = want_codes.iter().any(|c| *c != "keep-unique" && *c != "line-count");
                        if got != want_codes || run.code != Some(if error_remains { 1 } else { 0 }) {
                            sink.fail(format!("C14:cli:wrong-selection:{what}"), format!("{what}: expected {want_codes:?}, got {got:?}, status {:?}", run.code), input.clone());
                        }
                        if calls != usize::from(want_codes.contains(&"check-lua")) {
                            sink.fail(format!("C14:cli:side-effect:{what}"), format!("{what}: {calls} Lua calls"), input.clone());
                        }
                        // The same selection in diff mode (every line added) with a path argument
                        // that matches no file: every block is modified and named by the diff.
                        n += 1;
                        kit.reset_log();
                        sink.exec();
                        let diff: String = repo_files.files.iter().map(|(f, t)| cli::new_file_diff(f, t)).collect();
                        let mut dargs = args.clone();
                        dargs.push("nomatch/**");
                        let drun = cli::blockwatch(&cfg.bin, &repo.dir, &dargs, Some(&diff), &[("BLOCKWATCH_LUA_MODE", "safe")], 30);
                        let mut dgot: Vec<String> = drun.diags().map(|d| d.iter().map(|d| d.code.clone()).collect()).unwrap_or_default();
                        dgot.sort();
                        if drun.panicked() || dgot != want_codes || drun.code != Some(if error_remains { 1 } else { 0 }) {
                            sink.fail(format!("C14:cli:wrong-selection-in-diff-mode:{what}"), format!("{what} with a diff naming every file and the path argument `nomatch/**`: expected {want_codes:?}, got {dgot:?}, status {:?}", drun.code), input);
                        }
                    }
                    Err(e) => sink.fail(format!("C14:cli:unreadable-report:{what}"), format!("{what}: {e}"), input),
                }
            }
            Err(()) => {
                sink.outcome("cli:rejected");
                let validated = run.stderr.contains("\"code\"") || calls > 0;
                if run.code == Some(0) || run.code.is_none() || validated {
                    sink.fail(format!("C14:cli:bad-flags-accepted:{what}"), format!("{what}: {} ({calls} Lua calls)", run.summary()), input);
                }
            }
        }
    }
    n
}

pub fn run(cfg: &Cfg, sink: &Arc<Sink>) -> Report {
    c18::prepare_env();
    unsafe {
        std::env::set_var("BLOCKWATCH_AI_API_URL", &FakeAi::global().url);
        std::env::set_var("BLOCKWATCH_AI_API_KEY", "k");
    }
    let mut report = Report::new("cases = (subset of the seven validators that have a violating block: all 128) × layout {one block per validator in one file, the same blocks reversed over two files, two rules per block} × flag {--disable, --enable} × flag set (quick: every subset of size ≤2 and every complement of size ≤1, all 128 subsets on the repository where all seven validators fire; thorough: all 128 everywhere) × every block-map order; AI blocks talk to a recording fake endpoint, Lua blocks log their calls; oracle: the diagnostic codes equal the unrestricted codes minus (-d) / restricted to (-e) the named validators, the status follows what remains, and a switched-off validator makes no AI request and no Lua call; plus 25 flag spellings through the real CLI (repetition = union — also as many repetitions as there are validators —, both flags on either side of `list`, both flags / unknown / padded / comma names rejected before anything is validated); non-trivial = every case with at least one block");
    report.assume("which validator fires on which block is fixed by construction");
    let thorough = cfg.tier == crate::core::Tier::Thorough;
    let mut cases = Vec::new();
    for mask in 0..128u8 {
        for layout in 0..3u8 {
            for flags in 0..128u8 {
                let small = flags.count_ones() <= 2 || flags.count_ones() >= 6;
                if !(thorough || small || mask == 127) {
                    continue;
                }
                for enable in [false, true] {
                    cases.push(Case { mask, layout, enable, flags });
                }
            }
        }
    }
    let n = cases.len();
    report.phase(engine::explore("repositories × flag sets × map orders (library)", &format!("{n} cases × all block-map orders"), Grid { cases, check: |c: &Case, s: &Sink| check_case(c, s) }, sink, cfg.threads, false));
    if !thorough {
        report.cap("quick: flag sets of size 3–5 only on the repository where all seven validators fire");
    }
    let n = cli_slice(cfg, sink);
    report.phase(Phase { name: "flag spellings through the real CLI".into(), states: n, transitions: n, max_depth: 1, exhaustive: true, bound: "25 flag spellings, each accepted one also in diff mode with a non-matching path argument".into() });
    report
}

pub fn replay(cfg: &Cfg, input: &Value, sink: &Arc<Sink>) {
    c18::prepare_env();
    unsafe {
        std::env::set_var("BLOCKWATCH_AI_API_URL", &FakeAi::global().url);
        std::env::set_var("BLOCKWATCH_AI_API_KEY", "k");
    }
    if input.get("cli").is_some() {
        cli_slice(cfg, sink);
        return;
    }
    check_case(&Case { mask: input["mask"].as_u64().unwrap_or(0) as u8, layout: input["layout"].as_u64().unwrap_or(0) as u8, enable: input["enable"].as_bool().unwrap_or(false), flags: input["flags"].as_u64().unwrap_or(0) as u8 }, sink);
}
