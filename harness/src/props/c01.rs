//! C01: drift detection. E1 over edit histories on labelled template repositories; diffs come
//! from real git; the oracle is relative to the diff git printed (labels of the `-` old lines and
//! `+` new lines are known by construction).

use crate::cli::{self, Scratch, TreePair};
use crate::core::{Cfg, Phase, Report, Sink, Tier};
use crate::engine::{self, Space};
use crate::librun::{self, Diag, Input, Outcome};
use crate::props::difflab::{self, Edit, FileDiff, LFile, Label, lfile};
use crate::props::rules::first_line;
use blockwatch::verif_hooks::BlockDump;
use serde_json::{Value, json};
use std::collections::BTreeMap;
use std::sync::Arc;

#[derive(Clone, Debug)]
pub struct BlockSpec {
    pub id: u8,
    pub file: usize,
    pub name: Option<&'static str>,
    /// (file or None for the same file, block name)
    pub affects: Vec<(Option<&'static str>, &'static str)>,
}

pub struct Template {
    pub name: &'static str,
    pub files: Vec<LFile>,
    pub blocks: Vec<BlockSpec>,
}

fn spec(id: u8, file: usize, name: Option<&'static str>, affects: &[(Option<&'static str>, &'static str)]) -> BlockSpec {
    BlockSpec { id, file, name, affects: affects.to_vec() }
}

pub fn templates() -> Vec<Template> {
    let mut t7 = lfile(
        "x.py",
        "++ {}",
        "O|-- x\nT0|# <block name=\"a\" affects=\":b\">\nC|++ y\nC|@@ -1 +1 @@\nC|--- a/x.py\nE0|# </block>\nO|diff --git a/x.py b/x.py\nT1|# <block name=\"b\">\nC|+++ b/x.py\nC|\\ No newline at end of file\nE1|# </block>",
    );
    t7.trailing_newline = false;
    // T8: no trailing newline and an *outside* last line (git prints its `\ No newline` marker
    // between the `-` and `+` lines of an edit there); block names that contain a colon,
    // referenced in the same file and across files.
    let mut t8 = lfile(
        "x.py",
        "{} = 0",
        "O|import os\nT0|# <block name=\"a\" affects=\":ns:b, w.py:ns:c\">\nC|k1 = 1\nC|k2 = 2\nE0|# </block>\nO|mid = 0\nT1|# <block name=\"ns:b\">\nC|v1 = 1\nC|v2 = 2\nC|v3 = 3\nE1|# </block>\nO|pad = 0\nO|tail = 0",
    );
    t8.trailing_newline = false;
    let t8w = lfile("w.py", "{} = 0", "O|first = 0\nT2|# <block name=\"ns:c\">\nC|w1 = 1\nE2|# </block>\nO|last = 0");
    let mut all = vec![
        Template {
            name: "T1-siblings",
            files: vec![lfile(
                "x.py",
                "{} = 0",
                "O|import os\nT0|# <block name=\"a\" affects=\":b\">\nC|k1 = 1\nC|k2 = 2\nC|k3 = 3\nE0|# </block>\nO|mid = 0\nT1|# <block name=\"b\" keep-sorted severity=\"warning\">\nC|v2 = 1\nC|v1 = 2\nE1|# </block>\nO|tail = 9",
            )],
            blocks: vec![spec(0, 0, Some("a"), &[(None, "b")]), spec(1, 0, Some("b"), &[])],
        },
        Template {
            name: "T2-cross-file",
            files: vec![
                lfile(
                    "x.py",
                    "{} = 0",
                    "T0|# <block name=\"a\" affects=\"y.md:b, :c\">\nC|k1 = 1\nC|k2 = 2\nE0|# </block>\nO|mid = 0\nT1|# <block name=\"c\">\nC|v1 = 1\nE1|# </block>",
                ),
                lfile(
                    "y.md",
                    "{} text",
                    "O|# Title\nO|\nT2|[//]: # (<block name=\"b\">)\nC|Some text\nC|\nE2|[//]: # (</block>)\nO|\nT3|<!-- <block name=\"d\" affects=\"x.py:a\"> -->\nC|More text\nE3|<!-- </block> -->",
                ),
            ],
            blocks: vec![
                spec(0, 0, Some("a"), &[(Some("y.md"), "b"), (None, "c")]),
                spec(1, 0, Some("c"), &[]),
                spec(2, 1, Some("b"), &[]),
                spec(3, 1, Some("d"), &[(Some("x.py"), "a")]),
            ],
        },
        Template {
            name: "T3-nested",
            files: vec![lfile(
                "x.py",
                "{} = 0",
                "O|top = 0\nT0|# <block name=\"o\" affects=\":t\">\nC|c1 = 1\nT1|# <block name=\"i\" affects=\":o\">\nC|n1 = 1\nC|n2 = 2\nE1|# </block>\nC|c2 = 2\nE0|# </block>\nT2|# <block name=\"t\">\nC|t1 = 1\nE2|# </block>",
            )],
            blocks: vec![spec(0, 0, Some("o"), &[(None, "t")]), spec(1, 0, Some("i"), &[(None, "o")]), spec(2, 0, Some("t"), &[])],
        },
        Template {
            name: "T4-rust-multiline-tag",
            files: vec![lfile(
                "x.rs",
                "fn {}() {}",
                "O|fn before() {}\nS0|/* note\nT0|   <block name=\"a\"\nT0|          affects=\":b\">\nS0|   tail */\nC|fn f1() {}\nC|fn f2() {}\nE0|// </block>\nO|fn mid() {}\nT1|// <block name=\"b\">\nC|fn g1() {}\nE1|/* </block>\nE1|   end note */\nO|fn after() {}",
            )],
            blocks: vec![spec(0, 0, Some("a"), &[(None, "b")]), spec(1, 0, Some("b"), &[])],
        },
        Template {
            name: "T5-cycle-duplicates-missing",
            files: vec![lfile(
                "x.py",
                "{} = 0",
                "T0|# <block name=\"a\" affects=\":b\">\nC|k1 = 1\nE0|# </block>\nT1|# <block name=\"b\" affects=\":a, :missing\">\nC|v1 = 1\nE1|# </block>\nT2|# <block name=\"b\">\nC|w1 = 1\nE2|# </block>\nT3|# <block affects=\":a,:b\">\nC|u1 = 1\nE3|# </block>",
            )],
            blocks: vec![
                spec(0, 0, Some("a"), &[(None, "b")]),
                spec(1, 0, Some("b"), &[(None, "a"), (None, "missing")]),
                spec(2, 0, Some("b"), &[]),
                spec(3, 0, None, &[(None, "a"), (None, "b")]),
            ],
        },
        Template {
            name: "T6-repeated-and-blank-lines",
            files: vec![lfile(
                "x.py",
                "{}",
                "O|x\nO|\nT0|# <block name=\"a\" affects=\":b\">\nC|x\nC|x\nC|\nC|x\nE0|# </block>\nO|x\nO|\nT1|# <block name=\"b\">\nC|x\nC|\nE1|# </block>\nO|x",
            )],
            blocks: vec![spec(0, 0, Some("a"), &[(None, "b")]), spec(1, 0, Some("b"), &[])],
        },
        Template { name: "T7-diff-syntax-payload", files: vec![t7], blocks: vec![spec(0, 0, Some("a"), &[(None, "b")]), spec(1, 0, Some("b"), &[])] },
    ];
    // T9: template T1 with CR LF line ends.
    {
        let mut files = all[0].files.clone();
        for f in &mut files {
            f.crlf = true;
        }
        let blocks = all[0].blocks.clone();
        all.push(Template { name: "T9-siblings-crlf", files, blocks });
    }
    all.push(Template {
        name: "T8-no-newline-colon-names",
        files: vec![t8, t8w],
        blocks: vec![spec(0, 0, Some("a"), &[(None, "ns:b"), (Some("w.py"), "ns:c")]), spec(1, 0, Some("ns:b"), &[]), spec(2, 1, Some("ns:c"), &[])],
    });
    all
}

#[derive(Clone, Debug, Hash, PartialEq, Eq)]
pub struct State {
    pub files: Vec<LFile>,
    pub depth: u8,
    /// The edits that led here (kept for replay; excluded from equality via canonical form below).
    pub history: Vec<Edit>,
}

/// Per block: what the diff says about it.
#[derive(Clone, Copy, Debug, PartialEq, Eq)]
pub enum Expect {
    Must,
    MustNot,
    DontCare,
}

/// L1: must / must-not / don't-care from the diff git printed.
pub fn expectations(base: &[LFile], new: &[LFile], diffs: &[FileDiff]) -> BTreeMap<u8, Expect> {
    let mut result = BTreeMap::new();
    for (fi, nf) in new.iter().enumerate() {
        let bf = &base[fi];
        let fd = diffs.iter().find(|d| d.new_path.as_deref() == Some(nf.name));
        let (minus, plus): (&[usize], &[usize]) = match fd {
            Some(d) => (&d.minus, &d.plus),
            None => (&[], &[]),
        };
        let old_spans = bf.spans();
        for (id, s1, s2, e1, e2) in nf.spans() {
            let (_, os1, os2, oe1, oe2) = *old_spans.iter().find(|s| s.0 == id).expect("block exists in the base");
            let inside = plus.iter().any(|&n| s2 < n && n < e1) || minus.iter().any(|&o| os2 < o && o < oe1);
            let near = |n: usize, a1: usize, a2: usize, b1: usize, b2: usize| (a1.saturating_sub(1) <= n && n <= a2) || (b1 <= n && n <= b2 + 1);
            let touches_tags = plus.iter().any(|&n| near(n, s1, s2, e1, e2)) || minus.iter().any(|&o| near(o, os1, os2, oe1, oe2));
            result.insert(id, if inside { Expect::Must } else if touches_tags { Expect::DontCare } else { Expect::MustNot });
        }
    }
    result
}

fn find_block<'a>(dump: &'a [BlockDump], file: &str, tag_line: usize) -> Option<&'a BlockDump> {
    dump.iter().find(|b| b.file.to_str() == Some(file) && b.start_tag_start.0 == tag_line)
}

/// L2: the `affects` diagnostics that follow from the observed flags.
fn expected_affects(t: &Template, new: &[LFile], dump: &[BlockDump]) -> Vec<(String, usize, String, String)> {
    let modified: Vec<(String, String)> = dump
        .iter()
        .filter(|b| b.is_content_modified)
        .filter_map(|b| b.attributes.iter().find(|(k, _)| k == "name").map(|(_, v)| (b.file.display().to_string(), v.clone())))
        .collect();
    let mut out = Vec::new();
    for spec in &t.blocks {
        let file = new[spec.file].name;
        let line = new[spec.file].tag_line(spec.id);
        let Some(b) = find_block(dump, file, line) else { continue };
        if !b.is_content_modified {
            continue;
        }
        for (rf, rn) in &spec.affects {
            let target_file = rf.unwrap_or(file).to_string();
            if !modified.contains(&(target_file.clone(), rn.to_string())) {
                out.push((file.to_string(), line, target_file, rn.to_string()));
            }
        }
    }
    out.sort();
    out
}

fn observed_affects(diags: &[Diag]) -> Vec<(String, usize, String, String)> {
    let mut out: Vec<_> = diags
        .iter()
        .filter(|d| d.code == "affects")
        .map(|d| {
            (
                d.file.clone(),
                d.range.0 as usize,
                d.data.get("affected_block_file_path").and_then(Value::as_str).unwrap_or("?").to_string(),
                d.data.get("affected_block_name").and_then(Value::as_str).unwrap_or("?").to_string(),
            )
        })
        .collect();
    out.sort();
    out
}

/// Features of a diff that make two known defects of the diff reader observable (both are recorded
/// in known_findings.json and both are pinned by the repository's own unit tests, so they cannot be
/// repaired without editing those tests):
///
/// * `shifted-pure-deletion` — a pure deletion (a `-` run with no `+` line after it) is recorded at
///   its OLD-file line number (pinned by `multiple_non_consecutive_deleted_lines_returns_separate_line_changes`);
///   observable only when earlier changes of the same file shifted the line numbers;
/// * `surplus-deletion` — in a replacement run with more `-` than `+` lines the surplus deletions
///   are dropped (pinned by `all_lines_replaced_returns_single_line_changes_with_ranges`).
///
/// Returns, per file of the diff, the features present, as a fingerprint suffix.
pub fn diff_features(diff: &str) -> BTreeMap<String, String> {
    let mut result: BTreeMap<String, (bool, bool)> = BTreeMap::new();
    let mut lookalike: std::collections::BTreeSet<String> = Default::default();
    let mut file = String::new();
    let (mut shift, mut minus, mut plus) = (0i64, 0i64, 0i64);
    let (mut old_left, mut new_left) = (0i64, 0i64);
    fn close(file: &str, shift: &mut i64, minus: &mut i64, plus: &mut i64, result: &mut BTreeMap<String, (bool, bool)>) {
        if *minus > 0 || *plus > 0 {
            let entry = result.entry(file.to_string()).or_insert((false, false));
            if *plus == 0 && *shift != 0 {
                entry.0 = true;
            }
            if *plus > 0 && *minus > *plus {
                entry.1 = true;
            }
            *shift += *plus - *minus;
            *minus = 0;
            *plus = 0;
        }
    }
    for l in diff.split('\n') {
        if old_left > 0 || new_left > 0 {
            if l.starts_with("--- ") || l.starts_with("+++ ") {
                // A removed line `-- …` / added line `++ …`: the third-party diff reader takes it
                // for a file header (known finding).
                lookalike.insert(file.clone());
            }
            match l.as_bytes().first() {
                Some(b'-') => {
                    if plus > 0 {
                        close(&file, &mut shift, &mut minus, &mut plus, &mut result);
                    }
                    minus += 1;
                    old_left -= 1;
                }
                Some(b'+') => {
                    plus += 1;
                    new_left -= 1;
                }
                Some(b'\\') => {}
                _ => {
                    close(&file, &mut shift, &mut minus, &mut plus, &mut result);
                    old_left -= 1;
                    new_left -= 1;
                }
            }
            if old_left <= 0 && new_left <= 0 {
                close(&file, &mut shift, &mut minus, &mut plus, &mut result);
            }
            continue;
        }
        if let Some(rest) = l.strip_prefix("+++ ") {
            let rest = rest.trim_end_matches('\t');
            file = rest.strip_prefix("b/").unwrap_or(rest).to_string();
            shift = 0;
        } else if l.starts_with("@@ -") {
            let header = l[4..].split(" @@").next().unwrap_or("");
            if let Some((o, n)) = header.split_once(" +") {
                let len = |s: &str| s.split_once(',').map(|(_, b)| b.parse::<i64>().unwrap_or(1)).unwrap_or(1);
                old_left = len(o);
                new_left = len(n);
            }
        }
    }
    for f in &lookalike {
        result.entry(f.clone()).or_insert((false, false));
    }
    result
        .into_iter()
        .map(|(f, (shifted, surplus))| {
            let mut tag = String::new();
            if lookalike.contains(&f) {
                tag.push_str(":header-lookalike-in-hunk");
            }
            if shifted {
                tag.push_str(":shifted-pure-deletion");
            }
            if surplus {
                tag.push_str(":surplus-deletion");
            }
            (f, tag)
        })
        .collect()
}

/// Known defect class 3: `-` and `+` lines of a change group are paired by position; a deleted
/// (or added) content line of a block that is paired with a line of another kind (a tag-comment
/// line, an outside line, content of another block) is then treated as a modification of that
/// other line and the content change is lost. Returns the files in which some positional pair has
/// sides of different classes, at least one of them being content.
pub fn files_with_cross_boundary_pairing(base: &[LFile], new: &[LFile], diffs: &[FileDiff]) -> Vec<String> {
    let mut out = Vec::new();
    for (fi, nf) in new.iter().enumerate() {
        let Some(fd) = diffs.iter().find(|d| d.new_path.as_deref() == Some(nf.name)) else { continue };
        let bf = &base[fi];
        let hit = fd.groups.iter().any(|(minus, plus)| {
            minus.iter().zip(plus).any(|(&o, &n)| {
                if o == 0 || o > bf.lines.len() || n == 0 || n > nf.lines.len() {
                    return false;
                }
                let (a, b) = (bf.line_class(o), nf.line_class(n));
                a != b && (a.starts_with("content") || b.starts_with("content"))
            })
        });
        if hit {
            out.push(nf.name.to_string());
        }
    }
    out
}

/// Narrow classes of the diff content, used to fingerprint rejections.
fn diff_rejection_class(diff: &str) -> &'static str {
    let body_line = |prefix: &str| diff.lines().any(|l| l.starts_with(prefix));
    if body_line("+++ ") && diff.lines().filter(|l| l.starts_with("+++ ")).count() > diff.lines().filter(|l| l.starts_with("diff --git ")).count() {
        "added-line-starting-with-++"
    } else if diff.lines().filter(|l| l.starts_with("--- ")).count() > diff.lines().filter(|l| l.starts_with("diff --git ")).count() {
        "removed-line-starting-with---"
    } else {
        "other"
    }
}

pub fn judge(t: &Template, new: &[LFile], diff: &str, context: usize, input: &Value, sink: &Sink) {
    let parsed = match difflab::read_diff(diff) {
        Ok(p) => p,
        Err(e) => {
            sink.machinery(format!("own diff reader failed: {e}\n{diff}"));
            return;
        }
    };
    let expect = expectations(&t.files, new, &parsed);
    let features = diff_features(diff);
    let mispaired = files_with_cross_boundary_pairing(&t.files, new, &parsed);
    let class = |file: &str| format!("{}{}", features.get(file).cloned().unwrap_or_default(), if mispaired.iter().any(|f| f == file) { ":paired-across-block-boundary" } else { "" });
    let files: Vec<(String, String)> = new.iter().map(|f| (f.name.to_string(), f.text())).collect();
    let describe = |extra: &str| format!("{} -U{context}: {extra}\n--- diff ---\n{diff}", t.name);
    // Without path arguments, with `**`, and with a path argument that matches no file (the
    // diff's files stay in scope all the same).
    for (mode, globs) in [("diff+glob", vec!["**".to_string()]), ("diff", vec![]), ("diff+glob-matching-nothing", vec!["nomatch/**".to_string()])] {
        let with_glob = mode == "diff+glob";
        sink.exec();
        let outcome = librun::run(&Input { files: files.clone(), diff: Some(diff.to_string()), globs, ..Default::default() });
        let (dump, diags) = match &outcome {
            Outcome::Report { blocks, diags } => (blocks.clone(), diags.clone()),
            Outcome::Error { stage, message, .. } if *stage == "diff" => {
                sink.outcome(format!("{}:{mode}:diff-rejected", t.name));
                sink.fail(format!("C01:diff-rejected:{}", diff_rejection_class(diff)), describe(&format!("git's diff is rejected: {}", first_line(message))), input.clone());
                continue;
            }
            Outcome::Error { stage, message, .. } => {
                sink.outcome(format!("{}:{mode}:error-{stage}", t.name));
                sink.fail(format!("C01:unexpected-error:{stage}"), describe(&format!("{mode}: {message}")), input.clone());
                continue;
            }
            Outcome::Panic { message } => {
                sink.outcome(format!("{}:{mode}:panic", t.name));
                sink.fail(format!("C01:panic:{}", first_line(message)), describe(&format!("{mode}: panic {message}")), input.clone());
                continue;
            }
        };
        // L1: flags vs diff.
        let mut l1_ok = true;
        for spec in &t.blocks {
            let file = new[spec.file].name;
            let line = new[spec.file].tag_line(spec.id);
            let observed = find_block(&dump, file, line);
            if with_glob && observed.is_none() {
                l1_ok = false;
                sink.fail(format!("C01:block-not-listed:{mode}"), describe(&format!("block {:?} at {file}:{line} is not listed although the file matches the glob", spec.name)), input.clone());
                continue;
            }
            let flag = observed.is_some_and(|b| b.is_content_modified);
            match expect.get(&spec.id) {
                Some(Expect::Must) if !flag => {
                    l1_ok = false;
                    sink.fail(format!("C01:content-change-missed:{mode}{}", class(file)), describe(&format!("the diff changes a line inside block {:?} ({file}:{line}) but it is not marked modified", spec.name)), input.clone());
                }
                Some(Expect::MustNot) if flag => {
                    l1_ok = false;
                    sink.fail(format!("C01:outside-change-marks-block:{mode}{}", class(file)), describe(&format!("every changed line is outside block {:?} ({file}:{line}) and away from its tag lines, yet it is marked modified", spec.name)), input.clone());
                }
                _ => {}
            }
        }
        // L2: violations vs observed flags; L3: status.
        let want = expected_affects(t, new, &dump);
        let got = observed_affects(&diags);
        if want != got {
            sink.fail(format!("C01:affects-diagnostics-differ:{mode}"), describe(&format!("expected affects diagnostics (file, tag line, target file, target name) {want:?}, observed {got:?}")), input.clone());
        }
        // Other rules of the templates (T1's block b is an unsorted keep-sorted block of warning
        // severity, so that a second validator reports on the same file) are not judged here.
        if diags.iter().any(|d| d.code != "affects" && d.code != "keep-sorted") {
            sink.fail("C01:stray-diagnostic", describe(&format!("{:?}", diags.iter().map(|d| d.code.clone()).collect::<Vec<_>>())), input.clone());
        }
        if (outcome.exit_status() == 1) != !want.is_empty() {
            sink.fail(format!("C01:status:{mode}"), describe(&format!("exit status {} with expected diagnostics {want:?}", outcome.exit_status())), input.clone());
        }
        sink.outcome(format!("{}:{mode}:l1={}:affects={}", t.name, if l1_ok { "ok" } else { "bad" }, got.len().min(3)));
    }
}

pub struct C01Space {
    pub template: usize,
    pub max_depth: u8,
    pub contexts: Vec<usize>,
    /// Only replacements (no insertions/deletions): a smaller alphabet for one more level of depth.
    pub replacements_only: bool,
    /// Only fresh insertions inside the first block of the first file and edits of its last line.
    pub insertions_and_last_line: bool,
}

thread_local! {
    static PAIR: TreePair = TreePair::new("c01");
    static TEMPLATES: Vec<Template> = templates();
}

fn input_json(template: usize, history: &[Edit]) -> Value {
    json!({"template": template, "edits": history.iter().map(Edit::to_json).collect::<Vec<_>>()})
}

pub fn check_state(template: usize, state: &State, contexts: &[usize], sink: &Sink) {
    if state.depth == 0 {
        return;
    }
    TEMPLATES.with(|ts| {
        let t = &ts[template];
        let input = input_json(template, &state.history);
        for &context in contexts {
            let diff = PAIR.with(|p| difflab::git_diff(p, &t.files, &state.files, context));
            let diff = match diff {
                Ok(d) => d,
                Err(e) => {
                    sink.machinery(e);
                    return;
                }
            };
            if diff.is_empty() {
                continue; // edits that cancel out
            }
            judge(t, &state.files, &diff, context, &input, sink);
        }
        sink.nontrivial();
        if state.depth >= 2 {
            sink.sample(|| json!({"input": input, "new_files": state.files.iter().map(|f| json!({"name": f.name, "text": f.text()})).collect::<Vec<_>>()}));
        }
    });
}

/// States are deduplicated by the resulting file contents (the diff depends only on the two
/// endpoints); the history is carried along for replay only.
#[derive(Clone, Debug)]
pub struct Canon(pub State);

impl PartialEq for Canon {
    fn eq(&self, other: &Self) -> bool {
        self.0.files == other.0.files && self.0.depth == other.0.depth
    }
}
impl Eq for Canon {}
impl std::hash::Hash for Canon {
    fn hash<H: std::hash::Hasher>(&self, state: &mut H) {
        self.0.files.hash(state);
        self.0.depth.hash(state);
    }
}

impl Space for C01Space {
    type State = Canon;
    fn init(&self) -> Vec<Canon> {
        TEMPLATES.with(|ts| vec![Canon(State { files: ts[self.template].files.clone(), depth: 0, history: vec![] })])
    }
    fn succ(&self, state: &Canon) -> Vec<Canon> {
        let s = &state.0;
        if s.depth >= self.max_depth {
            return Vec::new();
        }
        difflab::edits(&s.files)
            .into_iter()
            .filter(|e| !self.replacements_only || matches!(e, Edit::Rep { .. }))
            .filter(|e| {
                !self.insertions_and_last_line
                    || match e {
                        // Inside the first block of the first file (so that every insertion shifts
                        // what follows by one line and is itself a legitimate content change).
                        Edit::Ins { file, dup, pos } => {
                            let lines = &s.files[0].lines;
                            let first_start = lines.iter().position(|l| matches!(l.label, Label::Start(..))).unwrap_or(0);
                            let first_end = lines.iter().position(|l| matches!(l.label, Label::End(..))).unwrap_or(0);
                            *file == 0 && !dup && *pos > first_start && *pos <= first_end
                        }
                        Edit::Rep { file, idx, .. } | Edit::Del { file, idx } => *file == 0 && *idx + 1 == s.files[0].lines.len(),
                        _ => false,
                    }
            })
            .map(|e| {
                let files = difflab::apply(&s.files, &e, s.depth as usize + 1);
                let mut history = s.history.clone();
                history.push(e);
                Canon(State { files, depth: s.depth + 1, history })
            })
            .collect()
    }
    fn check(&self, state: &Canon, sink: &Sink) {
        check_state(self.template, &state.0, &self.contexts, sink);
    }
}

/// The "every way of asking git" dimension, through the real CLI in real repositories.
fn modes_phase(cfg: &Cfg, sink: &Sink, templates_to_use: &[usize], depth: u8) -> Phase {
    let ts = templates();
    let mut n = 0u64;
    for &ti in templates_to_use {
        let t = &ts[ti];
        // All states up to `depth`.
        let mut frontier = vec![State { files: t.files.clone(), depth: 0, history: vec![] }];
        let mut all: Vec<State> = Vec::new();
        for d in 0..depth {
            let mut next = Vec::new();
            for s in &frontier {
                for e in difflab::edits(&s.files) {
                    let files = difflab::apply(&s.files, &e, d as usize + 1);
                    let mut history = s.history.clone();
                    history.push(e);
                    next.push(State { files, depth: d + 1, history });
                }
            }
            all.extend(next.iter().cloned());
            frontier = next;
        }
        let chunks: Vec<&[State]> = all.chunks(all.len().div_ceil(cfg.threads.max(1)).max(1)).collect();
        std::thread::scope(|scope| {
            for chunk in chunks {
                scope.spawn(move || {
                    let ts = templates();
                    let t = &ts[ti];
                    for s in chunk {
                        modes_case(cfg, t, ti, s, sink);
                    }
                });
            }
        });
        n += all.len() as u64;
    }
    Phase { name: "git modes (worktree, --cached, commit-to-commit, rename -M) through the CLI".into(), states: n, transitions: n, max_depth: depth as u64, exhaustive: true, bound: format!("every state of depth ≤{depth} of templates {templates_to_use:?} × 4 ways of asking git × -U0/-U3/-U10") }
}

fn modes_case(cfg: &Cfg, t: &Template, ti: usize, s: &State, sink: &Sink) {
    let input = input_json(ti, &s.history);
    for mode in ["worktree", "cached", "commits", "rename"] {
        let repo = Scratch::new("c01m");
        let g = |args: &[&str]| cli::git(&repo.dir, args);
        g(&["init", "-q"]);
        for f in &t.files {
            repo.write(f.name, &f.text());
        }
        g(&["add", "-A"]);
        g(&["commit", "-q", "-m", "base"]);
        let mut new_files: Vec<LFile> = s.files.clone();
        if mode == "rename" {
            // Rename the last file (never referenced by path in the templates used here) and edit it.
            let last = new_files.len() - 1;
            let old = new_files[last].name;
            let renamed: &'static str = if old.ends_with(".md") { "z.md" } else { "z.py" };
            if t.blocks.iter().any(|b| b.affects.iter().any(|(f, _)| *f == Some(old))) {
                continue;
            }
            g(&["mv", old, renamed]);
            new_files[last].name = renamed;
        }
        for f in &new_files {
            repo.write(f.name, &f.text());
        }
        match mode {
            "worktree" => {}
            "commits" => {
                g(&["add", "-A"]);
                g(&["commit", "-q", "-m", "edit", "--allow-empty"]);
            }
            _ => {
                g(&["add", "-A"]);
            }
        }
        for context in [0usize, 3, 10] {
            let u = format!("-U{context}");
            let (code, diff, err) = match mode {
                "worktree" => g(&["diff", &u]),
                "cached" => g(&["diff", "--cached", &u]),
                "commits" => g(&["diff", &u, "HEAD~1", "HEAD"]),
                _ => g(&["diff", "--cached", "-M", &u]),
            };
            if code != 0 {
                sink.machinery(format!("git diff failed in mode {mode}: {err}"));
                return;
            }
            if diff.is_empty() {
                continue;
            }
            // Base for the oracle: for a rename the old file is the base under its old name.
            let mut base: Vec<LFile> = t.files.clone();
            if mode == "rename" {
                let last = base.len() - 1;
                base[last].name = new_files[last].name;
            }
            let parsed = match difflab::read_diff(&diff) {
                Ok(p) => p,
                Err(e) => {
                    sink.machinery(format!("own diff reader failed: {e}"));
                    return;
                }
            };
            let expect = expectations(&base, &new_files, &parsed);
            let features = diff_features(&diff);
            let mispaired = files_with_cross_boundary_pairing(&base, &new_files, &parsed);
            let class = |file: &str| format!("{}{}", features.get(file).cloned().unwrap_or_default(), if mispaired.iter().any(|f| f == file) { ":paired-across-block-boundary" } else { "" });
            sink.execs(2);
            let list = cli::blockwatch(&cfg.bin, &repo.dir, &["list", "**"], Some(&diff), &[], 20);
            let check = cli::blockwatch(&cfg.bin, &repo.dir, &[], Some(&diff), &[], 20);
            let describe = |extra: &str| format!("{} mode={mode} -U{context}: {extra}\n--- diff ---\n{diff}", t.name);
            let listed: Value = serde_json::from_str(&list.stdout).unwrap_or(Value::Null);
            if list.code != Some(0) || !listed.is_object() {
                sink.fail(format!("C01:modes:list-failed:{mode}"), describe(&format!("{}", list.summary())), input.clone());
                continue;
            }
            let mut ok = true;
            for spec in &t.blocks {
                let file = new_files[spec.file].name;
                let line = new_files[spec.file].tag_line(spec.id);
                let flag = listed[file].as_array().and_then(|a| a.iter().find(|b| b["line"].as_u64() == Some(line as u64))).map(|b| b["is_content_modified"].as_bool().unwrap_or(false));
                match (expect.get(&spec.id), flag) {
                    (_, None) => {
                        ok = false;
                        sink.fail(format!("C01:modes:block-not-listed:{mode}"), describe(&format!("block at {file}:{line} missing from `list **`: {}", list.stdout)), input.clone());
                    }
                    (Some(Expect::Must), Some(false)) => {
                        ok = false;
                        sink.fail(format!("C01:content-change-missed:cli:{mode}{}", class(file)), describe(&format!("block {:?} at {file}:{line}", spec.name)), input.clone());
                    }
                    (Some(Expect::MustNot), Some(true)) => {
                        ok = false;
                        sink.fail(format!("C01:outside-change-marks-block:cli:{mode}{}", class(file)), describe(&format!("block {:?} at {file}:{line}", spec.name)), input.clone());
                    }
                    _ => {}
                }
            }
            // Status follows the diagnostics the CLI itself printed.
            match check.diags() {
                Ok(diags) => {
                    let has_error = diags.iter().any(|d| d.severity == 1);
                    if check.panicked() || check.code != Some(if has_error { 1 } else { 0 }) {
                        ok = false;
                        sink.fail(format!("C01:modes:status:{mode}"), describe(&format!("{}", check.summary())), input.clone());
                    }
                }
                Err(e) => {
                    ok = false;
                    sink.fail(format!("C01:modes:unreadable-report:{mode}"), describe(&format!("{e}")), input.clone());
                }
            }
            sink.outcome(format!("modes:{mode}:{}", if ok { "ok" } else { "bad" }));
        }
    }
    sink.nontrivial();
}

pub fn run(cfg: &Cfg, sink: &Arc<Sink>) -> Report {
    let mut report = Report::new("states = repository contents reached from a labelled template (9 templates: siblings (LF and CR LF), cross-file Markdown/HTML, nested, Rust multi-line tag in a 3-line comment, cycle + duplicate names + missing target + unnamed, repeated/blank lines, diff-syntax payload without trailing newline, a file without trailing newline ending in an outside line with colon-holding block names referenced in and across files) by line insertions (fresh or duplicate of the neighbour), deletions and replacements at every position, and tag-line edits that keep tags balanced; states with equal contents are merged; in every state real `git diff -U<k>` is taken against the template and the real code runs without path arguments, with `**` and with a path argument matching nothing; oracle L1: a block must be content-modified if a `-` old line or `+` new line of the diff is labelled content of it, must not be if no changed line is inside it, on its tag comments or adjoining them, else don't care; L2: affects diagnostics = per modified block with `affects`, one per referenced (file, name) without a modified block of that name; L3: status 1 iff L2 non-empty; non-trivial = every state ≠ template");
    report.assume("git 2.39 produces the diffs; the own diff reader is driven by @@ counts only");
    report.assume("labels of old and new lines are known by construction; tag lines are never deleted, so every block exists in both trees");
    let n = templates().len();
    let (depth_all, depth_t1, contexts): (u8, u8, Vec<usize>) = match cfg.tier {
        Tier::Quick => (2, 2, vec![0, 1, 3]),
        Tier::Thorough => (3, 3, vec![0, 1, 3, 10]),
    };
    for ti in 0..n {
        let depth = if ti == 0 { depth_t1 } else { depth_all };
        let name = templates()[ti].name;
        report.phase(engine::explore(
            name,
            &format!("all edit histories of length ≤{depth} × -U{contexts:?} × {{diff, diff+glob}}"),
            C01Space { template: ti, max_depth: depth, contexts: contexts.clone(), replacements_only: false, insertions_and_last_line: false },
            sink,
            cfg.threads,
            false,
        ));
    }
    // One level deeper over replacements only (three or more changed lines in one file are what
    // it takes to steer the binary search over line changes the wrong way).
    for ti in [0usize, 2, 3] {
        let name = templates()[ti].name;
        let depth = depth_all + 1;
        report.phase(engine::explore(
            &format!("{name}, replacements only"),
            &format!("all histories of ≤{depth} line replacements and tag-line edits × -U[0, 3] × {{diff, diff+glob}}"),
            C01Space { template: ti, max_depth: depth, contexts: vec![0, 3], replacements_only: true, insertions_and_last_line: false },
            sink,
            cfg.threads,
            false,
        ));
    }
    // Insertions above an edited last line of a file without trailing newline, one level deeper.
    {
        let ti = n - 1;
        let name = templates()[ti].name;
        let depth = depth_all + 2;
        report.phase(engine::explore(
            &format!("{name}, insertions and last-line edits only"),
            &format!("all histories of ≤{depth} fresh insertions inside the first block and edits of the file's last line × -U[0, 3] × 3 path-argument modes"),
            C01Space { template: ti, max_depth: depth, contexts: vec![0, 3], replacements_only: false, insertions_and_last_line: true },
            sink,
            cfg.threads,
            false,
        ));
    }
    report.phase(modes_phase(cfg, sink, &[0, 1], cfg.tier.pick(1, 2)));
    report
}

pub fn replay(cfg: &Cfg, input: &Value, sink: &Arc<Sink>) {
    let ti = input["template"].as_u64().unwrap_or(0) as usize;
    let edits: Vec<Edit> = input["edits"].as_array().map(|a| a.iter().filter_map(Edit::from_json).collect()).unwrap_or_default();
    let ts = templates();
    let mut files = ts[ti].files.clone();
    for (d, e) in edits.iter().enumerate() {
        files = difflab::apply(&files, e, d + 1);
    }
    let state = State { files, depth: edits.len() as u8, history: edits };
    check_state(ti, &state, &[0, 1, 2, 3, 5, 10], sink);
    if ti <= 1 && state.depth <= 2 {
        modes_case(cfg, &ts[ti], ti, &state, sink);
    }
}
