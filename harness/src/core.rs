//! Shared plumbing: configuration, the thread-safe result sink, failures, evidence.

use serde_json::{Value, json};
use std::collections::BTreeMap;
use std::path::PathBuf;
use std::sync::Mutex;
use std::sync::atomic::{AtomicU64, Ordering};

#[derive(Clone, Copy, PartialEq, Eq, Debug)]
pub enum Tier {
    Quick,
    Thorough,
}

impl Tier {
    pub fn name(self) -> &'static str {
        match self {
            Tier::Quick => "quick",
            Tier::Thorough => "thorough",
        }
    }
    pub fn pick<T>(self, quick: T, thorough: T) -> T {
        match self {
            Tier::Quick => quick,
            Tier::Thorough => thorough,
        }
    }
}

#[derive(Clone, Debug)]
pub struct Cfg {
    pub id: String,
    pub tier: Tier,
    pub seed: u64,
    pub threads: usize,
    /// The real `blockwatch` binary built from /repo with the `verif` feature.
    pub bin: PathBuf,
    /// /verif
    pub verif_dir: PathBuf,
}

/// One disagreement between the implementation and the reference on one explored case.
#[derive(Clone, Debug)]
pub struct Failure {
    /// Narrow class of the failure (classifier output). Compared with known findings.
    pub fingerprint: String,
    pub message: String,
    /// The explored case, replayable with `./check <ID> --replay <file>`.
    pub input: Value,
}

const MAX_STORED_PER_FINGERPRINT: usize = 3;
const MAX_SAMPLES: usize = 6;

/// Thread-safe collector used by every exploration.
#[derive(Default)]
pub struct Sink {
    /// Executions of the real code.
    pub executions: AtomicU64,
    /// Cases that are non-trivial by the property's stated rule.
    pub nontrivial: AtomicU64,
    outcomes: Mutex<BTreeMap<String, u64>>,
    failures: Mutex<BTreeMap<String, (u64, Vec<Failure>)>>,
    samples: Mutex<Vec<Value>>,
    machinery_errors: Mutex<Vec<String>>,
}

impl Sink {
    pub fn new() -> Self {
        Self::default()
    }

    pub fn exec(&self) {
        self.executions.fetch_add(1, Ordering::Relaxed);
    }

    pub fn execs(&self, n: u64) {
        self.executions.fetch_add(n, Ordering::Relaxed);
    }

    pub fn nontrivial(&self) {
        self.nontrivial.fetch_add(1, Ordering::Relaxed);
    }

    /// Records the observed outcome class of one case (used to expose vacuous explorations).
    pub fn outcome(&self, class: impl Into<String>) {
        *self.outcomes.lock().unwrap().entry(class.into()).or_insert(0) += 1;
    }

    pub fn sample(&self, f: impl FnOnce() -> Value) {
        let mut samples = self.samples.lock().unwrap();
        if samples.len() < MAX_SAMPLES {
            samples.push(f());
        }
    }

    pub fn fail(&self, fingerprint: impl Into<String>, message: impl Into<String>, input: Value) {
        let fingerprint = fingerprint.into();
        let mut failures = self.failures.lock().unwrap();
        let entry = failures.entry(fingerprint.clone()).or_insert((0, Vec::new()));
        entry.0 += 1;
        if entry.1.len() < MAX_STORED_PER_FINGERPRINT {
            entry.1.push(Failure {
                fingerprint,
                message: message.into(),
                input,
            });
        }
    }

    /// A problem of the machinery itself (never a verdict).
    pub fn machinery(&self, message: impl Into<String>) {
        let mut errors = self.machinery_errors.lock().unwrap();
        if errors.len() < 20 {
            errors.push(message.into());
        }
    }

    pub fn machinery_errors(&self) -> Vec<String> {
        self.machinery_errors.lock().unwrap().clone()
    }

    pub fn outcomes(&self) -> BTreeMap<String, u64> {
        self.outcomes.lock().unwrap().clone()
    }

    pub fn failures(&self) -> BTreeMap<String, (u64, Vec<Failure>)> {
        self.failures.lock().unwrap().clone()
    }

    pub fn samples(&self) -> Vec<Value> {
        self.samples.lock().unwrap().clone()
    }
}

/// What one phase of an exploration covered.
#[derive(Clone, Debug, Default)]
pub struct Phase {
    pub name: String,
    pub states: u64,
    pub transitions: u64,
    pub max_depth: u64,
    pub exhaustive: bool,
    pub bound: String,
}

/// The result of a check run.
#[derive(Default)]
pub struct Report {
    pub phases: Vec<Phase>,
    pub rule: String,
    pub assumptions: Vec<String>,
    pub caps: Vec<String>,
    pub extra: BTreeMap<String, Value>,
    last: Option<std::time::Instant>,
}

impl Report {
    pub fn new(rule: &str) -> Self {
        Self {
            rule: rule.to_string(),
            last: Some(std::time::Instant::now()),
            ..Default::default()
        }
    }
    pub fn phase(&mut self, phase: Phase) {
        let now = std::time::Instant::now();
        let dt = self.last.map(|t| now.duration_since(t).as_secs_f64()).unwrap_or(0.0);
        self.last = Some(now);
        eprintln!(
            "[phase +{dt:.1}s] {}: states={} transitions={} max_depth={} exhaustive={} bound={}",
            phase.name, phase.states, phase.transitions, phase.max_depth, phase.exhaustive, phase.bound
        );
        self.phases.push(phase);
    }
    pub fn assume(&mut self, text: &str) {
        self.assumptions.push(text.to_string());
    }
    pub fn cap(&mut self, text: impl Into<String>) {
        self.caps.push(text.into());
    }
}

pub fn evidence_json(
    cfg: &Cfg,
    level: &str,
    report: &Report,
    sink: &Sink,
    wall_s: f64,
    violations: usize,
    known_hit: &[String],
) -> Value {
    let states: u64 = report.phases.iter().map(|p| p.states).sum();
    let transitions: u64 = report.phases.iter().map(|p| p.transitions).sum();
    let max_depth = report.phases.iter().map(|p| p.max_depth).max().unwrap_or(0);
    let exhaustive = !report.phases.is_empty() && report.phases.iter().all(|p| p.exhaustive);
    let outcomes = sink.outcomes();
    let executions = sink.executions.load(Ordering::Relaxed);
    let mut coverage = json!({
        "states": states,
        "transitions": transitions,
        "traces_validated_against_impl": executions,
        "evaluations": executions,
        "distinct_nontrivial": sink.nontrivial.load(Ordering::Relaxed),
        "rule": report.rule,
        "samples": sink.samples(),
        "exhaustive": exhaustive,
        "max_depth": max_depth,
        "phases": report.phases.iter().map(|p| json!({
            "name": p.name, "states": p.states, "transitions": p.transitions,
            "max_depth": p.max_depth, "exhaustive": p.exhaustive, "bound": p.bound,
        })).collect::<Vec<_>>(),
        "distinct_outcomes": outcomes.len(),
        "outcomes": outcomes,
        "caps": report.caps,
        "known_findings_hit": known_hit,
        "explanation": "every state of the bounded space was generated and the real blockwatch code was executed on it; traces_validated_against_impl counts executions of the implementation (direct exploration: the implementation is the model)",
    });
    for (key, value) in &report.extra {
        coverage[key] = value.clone();
    }
    json!({
        "property_id": cfg.id,
        "tier": cfg.tier.name(),
        "seed": cfg.seed,
        "level": level,
        "coverage": coverage,
        "assumptions": report.assumptions,
        "wall_s": wall_s,
        "violations": violations,
    })
}

/// Small helper: cartesian product indices.
pub fn product(dims: &[usize]) -> impl Iterator<Item = Vec<usize>> + '_ {
    let total: usize = dims.iter().product();
    (0..total).map(move |mut index| {
        let mut result = Vec::with_capacity(dims.len());
        for dim in dims {
            result.push(index % dim);
            index /= dim;
        }
        result
    })
}

/// All permutations of `0..n` in lexicographic order.
pub fn permutations(n: usize) -> Vec<Vec<usize>> {
    fn rec(current: &mut Vec<usize>, used: &mut Vec<bool>, n: usize, out: &mut Vec<Vec<usize>>) {
        if current.len() == n {
            out.push(current.clone());
            return;
        }
        for i in 0..n {
            if !used[i] {
                used[i] = true;
                current.push(i);
                rec(current, used, n, out);
                current.pop();
                used[i] = false;
            }
        }
    }
    let mut out = Vec::new();
    rec(&mut Vec::new(), &mut vec![false; n], n, &mut out);
    out
}

// ---------------------------------------------------------------------------------------------
// Crash/hang containment: every worker thread records the case it is working on in a slot file;
// a watchdog thread turns a case that runs longer than the limit into exit status 3; the
// supervisor (parent process) attributes aborts by replaying the recorded cases.
// ---------------------------------------------------------------------------------------------

use std::sync::Arc;
use std::time::Instant;

pub const HANG_LIMIT_S: u64 = 10;
pub const EXIT_HANG: i32 = 3;

struct Slot {
    file: std::fs::File,
    state: Arc<Mutex<Option<(Instant, String)>>>,
}

static SLOTS: Mutex<Vec<Arc<Mutex<Option<(Instant, String)>>>>> = Mutex::new(Vec::new());

thread_local! {
    static SLOT: std::cell::RefCell<Option<Slot>> = const { std::cell::RefCell::new(None) };
}

fn slot_dir() -> Option<PathBuf> {
    std::env::var_os("BWMC_SLOT_DIR").map(PathBuf::from)
}

/// Records the case the current thread is about to run (no-op outside a supervised child).
/// One `pwrite` per case: 8-byte length, then the case.
pub fn slot_write(case: &str) {
    use std::os::unix::fs::FileExt;
    let Some(dir) = slot_dir() else { return };
    SLOT.with(|slot| {
        let mut slot = slot.borrow_mut();
        if slot.is_none() {
            let state = Arc::new(Mutex::new(None));
            let index = {
                let mut all = SLOTS.lock().unwrap();
                all.push(Arc::clone(&state));
                all.len()
            };
            let file = std::fs::File::create(dir.join(format!("slot-{index}.bin"))).expect("create slot file");
            *slot = Some(Slot { file, state });
        }
        let s = slot.as_mut().unwrap();
        let mut buffer = Vec::with_capacity(case.len() + 8);
        buffer.extend_from_slice(&(case.len() as u64).to_le_bytes());
        buffer.extend_from_slice(case.as_bytes());
        let _ = s.file.write_all_at(&buffer, 0);
        *s.state.lock().unwrap() = Some((Instant::now(), case.to_string()));
    });
}

/// Reads a slot file written by [`slot_write`].
pub fn slot_read(path: &std::path::Path) -> Option<String> {
    let bytes = std::fs::read(path).ok()?;
    if path.extension().is_some_and(|e| e == "json") {
        return String::from_utf8(bytes).ok();
    }
    let len = u64::from_le_bytes(bytes.get(..8)?.try_into().ok()?) as usize;
    String::from_utf8(bytes.get(8..8 + len)?.to_vec()).ok()
}

/// Marks the current thread idle (in memory only; the slot file keeps the last case).
pub fn slot_clear() {
    if slot_dir().is_none() {
        return;
    }
    SLOT.with(|slot| {
        if let Some(s) = slot.borrow_mut().as_mut() {
            *s.state.lock().unwrap() = None;
        }
    });
}

/// Starts the watchdog of a supervised child.
pub fn start_watchdog() {
    let Some(dir) = slot_dir() else { return };
    std::thread::spawn(move || loop {
        std::thread::sleep(std::time::Duration::from_millis(500));
        let all = SLOTS.lock().unwrap().clone();
        for state in all {
            let stuck = state.lock().unwrap().as_ref().filter(|(t, _)| t.elapsed().as_secs() >= HANG_LIMIT_S).map(|(_, c)| c.clone());
            if let Some(case) = stuck {
                let _ = std::fs::write(dir.join("hang.json"), case);
                std::process::exit(EXIT_HANG);
            }
        }
    });
}
