//! LibRunner: drives the public library API exactly as `main.rs` does, over an in-memory file
//! system, and returns everything observable (selected blocks, diagnostics, error, panic).

use blockwatch::blocks::{self, FileSystem, PathChecker};
use blockwatch::validators;
use blockwatch::verif_hooks::{self, BlockDump};
use globset::{Glob, GlobSet, GlobSetBuilder};
use serde_json::{Value, json};
use std::collections::{HashMap, HashSet};
use std::ffi::OsString;
use std::path::{Path, PathBuf};
use std::sync::Arc;

/// Number of runs that ended in an error of the runner itself (never a verdict on the subject).
pub static MACHINERY_ERRORS: std::sync::atomic::AtomicU64 = std::sync::atomic::AtomicU64::new(0);

#[derive(Clone, Debug, Default)]
pub struct Input {
    /// Files in walk order: (root-relative path, content).
    pub files: Vec<(String, String)>,
    /// Files that can be read but are not discovered by the walk (hidden or git-ignored files).
    pub unwalked: Vec<(String, String)>,
    /// Unified diff on "stdin"; `None` = terminal mode (no diff).
    pub diff: Option<String>,
    pub globs: Vec<String>,
    pub ignore: Vec<String>,
    pub extensions: Vec<(String, String)>,
    pub disabled: Vec<String>,
    pub enabled: Vec<String>,
    /// Iteration order of the block map (file paths); `None` = whatever the hash map gives.
    pub map_order: Option<Vec<String>>,
    /// Stop after building the context (the `list` subcommand).
    pub list_only: bool,
    /// Answers for the choice points of the scheduling seams, per label (missing = 0).
    pub choices: HashMap<String, Vec<usize>>,
}

#[derive(Clone, Debug, PartialEq)]
pub struct Diag {
    pub file: String,
    pub code: String,
    pub severity: u64,
    pub message: String,
    /// (start line, start col, end line, end col), 1-based, inclusive byte columns.
    pub range: (u64, u64, u64, u64),
    pub data: Value,
}

#[derive(Clone, Debug)]
pub enum Outcome {
    /// The run completed: selected blocks and diagnostics.
    Report { blocks: Vec<BlockDump>, diags: Vec<Diag> },
    /// The run failed with an error (exit 1 with a message in the CLI). `stage` is one of
    /// diff / parse / detect / run.
    Error { stage: &'static str, message: String, blocks: Vec<BlockDump> },
    Panic { message: String },
}

impl Outcome {
    pub fn class(&self) -> String {
        match self {
            Outcome::Report { blocks, diags } => {
                let mut codes: Vec<&str> = diags.iter().map(|d| d.code.as_str()).collect();
                codes.sort();
                codes.dedup();
                format!("report:blocks={}:codes={}", blocks.len().min(4), codes.join("+"))
            }
            Outcome::Error { stage, .. } => format!("error:{stage}"),
            Outcome::Panic { .. } => "panic".to_string(),
        }
    }
    pub fn exit_status(&self) -> i32 {
        match self {
            Outcome::Report { diags, .. } => {
                if diags.iter().any(|d| d.severity == 1) { 1 } else { 0 }
            }
            Outcome::Error { .. } => 1,
            Outcome::Panic { .. } => 101,
        }
    }
    pub fn diags(&self) -> &[Diag] {
        match self {
            Outcome::Report { diags, .. } => diags,
            _ => &[],
        }
    }
    pub fn blocks(&self) -> &[BlockDump] {
        match self {
            Outcome::Report { blocks, .. } => blocks,
            Outcome::Error { blocks, .. } => blocks,
            _ => &[],
        }
    }
    pub fn to_json(&self) -> Value {
        match self {
            Outcome::Report { blocks, diags } => json!({
                "kind": "report",
                "blocks": blocks.iter().map(block_json).collect::<Vec<_>>(),
                "diags": diags.iter().map(diag_json).collect::<Vec<_>>(),
            }),
            Outcome::Error { stage, message, .. } => json!({"kind": "error", "stage": stage, "message": message}),
            Outcome::Panic { message } => json!({"kind": "panic", "message": message}),
        }
    }
}

pub fn block_json(b: &BlockDump) -> Value {
    json!({
        "file": b.file.display().to_string(),
        "attributes": b.attributes,
        "start": [b.start_tag_start.0, b.start_tag_start.1],
        "end": [b.start_tag_end.0, b.start_tag_end.1],
        "content": b.content,
        "content_modified": b.is_content_modified,
        "tag_modified": b.is_start_tag_modified,
    })
}

pub fn diag_json(d: &Diag) -> Value {
    json!({"file": d.file, "code": d.code, "severity": d.severity, "message": d.message,
           "range": [d.range.0, d.range.1, d.range.2, d.range.3], "data": d.data})
}

pub fn diag_from_value(file: &str, v: &Value) -> Option<Diag> {
    let r = v.get("range")?;
    Some(Diag {
        file: file.to_string(),
        code: v.get("code")?.as_str()?.to_string(),
        severity: v.get("severity")?.as_u64()?,
        message: v.get("message")?.as_str()?.to_string(),
        range: (
            r.get("start")?.get("line")?.as_u64()?,
            r.get("start")?.get("character")?.as_u64()?,
            r.get("end")?.get("line")?.as_u64()?,
            r.get("end")?.get("character")?.as_u64()?,
        ),
        data: v.get("data").cloned().unwrap_or(Value::Null),
    })
}

struct MemFs {
    order: Vec<PathBuf>,
    files: HashMap<PathBuf, String>,
}

impl FileSystem for MemFs {
    fn read_to_string(&self, path: &Path) -> anyhow::Result<String> {
        self.files
            .get(path)
            .cloned()
            .ok_or_else(|| anyhow::anyhow!("Failed to read file \"{}\"", path.display()))
    }
    fn walk(&self) -> impl Iterator<Item = anyhow::Result<PathBuf>> {
        self.order.iter().cloned().map(Ok)
    }
}

fn glob_set(globs: &[String]) -> anyhow::Result<GlobSet> {
    let mut builder = GlobSetBuilder::new();
    for g in globs {
        builder.add(Glob::new(g)?);
    }
    Ok(builder.build()?)
}

macro_rules! pipeline {
    ($parsers:expr, $input:expr) => {{
        let input: &Input = $input;
        // main.rs: args.validate() is exercised through the CLI runner only.
        let mut globs = match glob_set(&input.globs) {
            Ok(g) => g,
            Err(e) => return Outcome::Error { stage: "flags", message: format!("{e:#}"), blocks: vec![] },
        };
        let is_terminal = input.diff.is_none();
        if globs.is_empty() && is_terminal {
            globs = GlobSet::new([Glob::new("**").unwrap()]).unwrap();
        }
        let should_scan_files = !globs.is_empty();
        let ignored = match glob_set(&input.ignore) {
            Ok(g) => g,
            Err(e) => return Outcome::Error { stage: "flags", message: format!("{e:#}"), blocks: vec![] },
        };
        let path_checker = blocks::PathCheckerImpl::new(globs, ignored);
        let fs = MemFs {
            order: input.files.iter().map(|(p, _)| PathBuf::from(p)).collect(),
            files: input.files.iter().chain(input.unwalked.iter()).map(|(p, c)| (PathBuf::from(p), c.clone())).collect(),
        };
        let modified = match &input.diff {
            Some(diff) => match blockwatch::diff_parser::line_changes_from_diff(diff) {
                Ok(m) => m,
                Err(e) => return Outcome::Error { stage: "diff", message: format!("{e:#}"), blocks: vec![] },
            },
            None => HashMap::new(),
        };
        let extensions: HashMap<OsString, OsString> = input
            .extensions
            .iter()
            .map(|(k, v)| (OsString::from(k), OsString::from(v)))
            .collect();
        let parsed = match blocks::parse_blocks(modified, should_scan_files, &fs, &path_checker, $parsers, extensions) {
            Ok(b) => b,
            Err(e) => return Outcome::Error { stage: "parse", message: format!("{e:#}"), blocks: vec![] },
        };
        let mut context = validators::ValidationContext::new(parsed);
        if let Some(order) = &input.map_order {
            let order: Vec<PathBuf> = order.iter().map(PathBuf::from).collect();
            context = match verif_hooks::reorder(context, &order, 100_000) {
                Ok(c) => c,
                Err(c) => {
                    // The map does not hold exactly the requested files (a subject that loses or
                    // gains a file must be judged on what it does, not hidden behind a harness
                    // error): keep the requested order for the files that are present and append
                    // the others in path order.
                    let mut present: Vec<PathBuf> = verif_hooks::dump(&c).into_iter().map(|b| b.file).collect();
                    present.sort();
                    present.dedup();
                    let mut fallback: Vec<PathBuf> = order.iter().filter(|p| present.contains(p)).cloned().collect();
                    fallback.extend(present.iter().filter(|p| !order.contains(p)).cloned());
                    match verif_hooks::reorder(c, &fallback, 100_000) {
                        Ok(c) => c,
                        Err(_) => {
                            MACHINERY_ERRORS.fetch_add(1, std::sync::atomic::Ordering::Relaxed);
                            return Outcome::Error { stage: "machinery", message: "requested map order not reachable".into(), blocks: vec![] };
                        }
                    }
                }
            };
        }
        let dump = verif_hooks::dump(&context);
        if input.list_only {
            return Outcome::Report { blocks: dump, diags: vec![] };
        }
        let disabled: HashSet<&str> = input.disabled.iter().map(String::as_str).collect();
        let enabled: HashSet<&str> = input.enabled.iter().map(String::as_str).collect();
        let (sync_v, async_v) = match validators::detect_validators(&context, validators::DETECTOR_FACTORIES, &disabled, &enabled) {
            Ok(v) => v,
            Err(e) => return Outcome::Error { stage: "detect", message: format!("{e:#}"), blocks: dump },
        };
        let violations = match validators::run(Arc::new(context), sync_v, async_v) {
            Ok(v) => v,
            Err(e) => return Outcome::Error { stage: "run", message: format!("{e:#}"), blocks: dump },
        };
        let mut diags = Vec::new();
        for (file, file_violations) in &violations {
            for violation in file_violations {
                let value = serde_json::to_value(violation.as_simple_diagnostic()).expect("diagnostic serialises");
                match diag_from_value(&file.display().to_string(), &value) {
                    Some(d) => diags.push(d),
                    None => {
                        MACHINERY_ERRORS.fetch_add(1, std::sync::atomic::Ordering::Relaxed);
                        return Outcome::Error { stage: "machinery", message: format!("unreadable diagnostic {value}"), blocks: dump };
                    }
                }
            }
        }
        Outcome::Report { blocks: dump, diags }
    }};
}


type Runner = Box<dyn Fn(&Input) -> Outcome>;

fn make_runner() -> Runner {
    // The parser map's type is crate-private; hold it inside the closure.
    let parsers = blockwatch::language_parsers::language_parsers().expect("language parsers");
    Box::new(move |input: &Input| -> Outcome { pipeline!(parsers.clone(), input) })
}

thread_local! {
    static RUNNER: Runner = make_runner();
    static IN_SUBJECT: std::cell::Cell<bool> = const { std::cell::Cell::new(false) };
}

/// Whether the current thread is executing the subject (its panics are caught and classified;
/// panics of the harness itself must stay visible).
pub fn in_subject() -> bool {
    IN_SUBJECT.with(|f| f.get())
}

/// The set of registered file-name suffixes.
pub fn supported_suffixes() -> Vec<String> {
    let mut v: Vec<String> = blockwatch::language_parsers::language_parsers()
        .expect("language parsers")
        .keys()
        .map(|k| k.to_string_lossy().to_string())
        .collect();
    v.sort();
    v
}

/// Runs the pipeline of `main.rs` on `input`. Never panics (panics of the subject are caught).
pub fn run(input: &Input) -> Outcome {
    run_traced(input).0
}

/// Like [`run`], also returning the trace of scheduling decisions and a replay divergence, if any.
/// The run executes under an explorer (thread seam bodies inline, current-thread runtime); with
/// no recorded answers that is the canonical serial schedule.
pub fn run_traced(input: &Input) -> (Outcome, Vec<verif_hooks::Choice>, Option<String>) {
    verif_hooks::install(input.choices.clone());
    IN_SUBJECT.with(|f| f.set(true));
    let result = std::panic::catch_unwind(std::panic::AssertUnwindSafe(|| {
        RUNNER.with(|runner| runner(input))
    }));
    IN_SUBJECT.with(|f| f.set(false));
    let (trace, diverged) = verif_hooks::uninstall();
    let outcome = match result {
        Ok(outcome) => outcome,
        Err(payload) => {
            let message = if let Some(s) = payload.downcast_ref::<String>() {
                s.clone()
            } else if let Some(s) = payload.downcast_ref::<&str>() {
                s.to_string()
            } else {
                "non-string panic payload".to_string()
            };
            Outcome::Panic { message }
        }
    };
    (outcome, trace, diverged)
}

/// PathChecker is imported for the trait bound on `PathCheckerImpl`.
#[allow(dead_code)]
fn _uses(_: &dyn PathChecker) {}
