//! E2: deviation-bounded stateless exploration of schedules (choice-prefix DFS over the seams of
//! `blockwatch::verif_hooks`).
