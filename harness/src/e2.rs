//! E2: stateless exploration of schedules (choice-prefix DFS over the seams of
//! `blockwatch::verif_hooks`). The real code is re-executed once per schedule; every decision it
//! asks the explorer for (which JoinSet task delivers next, which "thread" body runs next) is
//! answered from a recorded prefix and then by the default 0; every alternative of every decision
//! beyond the prefix is scheduled for exploration. Optionally bounded by the number of
//! deviations (non-default answers).

use crate::librun::{self, Input, Outcome};
use blockwatch::verif_hooks::Choice;
use std::collections::HashMap;

#[derive(Clone, Debug, Default)]
pub struct Stats {
    pub schedules: u64,
    pub max_choice_points: usize,
    pub max_deviations: usize,
    /// Set when the schedule cap was hit (the exploration is then not exhaustive).
    pub capped: bool,
    pub divergence: Option<String>,
}

fn streams(prefix: &[(String, usize)]) -> HashMap<String, Vec<usize>> {
    let mut map: HashMap<String, Vec<usize>> = HashMap::new();
    for (label, chosen) in prefix {
        map.entry(label.clone()).or_default().push(*chosen);
    }
    map
}

/// Explores every schedule of `input` (up to `deviation_bound` non-default answers, and at most
/// `cap` schedules) and calls `visit` with each execution's outcome and trace.
pub fn explore(input: &Input, deviation_bound: Option<usize>, cap: u64, mut visit: impl FnMut(&Outcome, &[Choice])) -> Stats {
    explore_with(|_| input.clone(), deviation_bound, cap, |_, outcome, trace| visit(outcome, trace))
}

/// Like [`explore`], with the input rebuilt for every schedule (`make(schedule index)`): the
/// schedules must only differ in data the subject's control flow does not depend on (e.g. a
/// per-execution nonce inside attribute values).
pub fn explore_with(mut make: impl FnMut(u64) -> Input, deviation_bound: Option<usize>, cap: u64, mut visit: impl FnMut(u64, &Outcome, &[Choice])) -> Stats {
    let mut stats = Stats::default();
    let mut stack: Vec<Vec<(String, usize)>> = vec![Vec::new()];
    while let Some(prefix) = stack.pop() {
        if stats.schedules >= cap {
            stats.capped = true;
            break;
        }
        let mut run_input = make(stats.schedules);
        if run_input.map_order.is_none() && run_input.files.len() + run_input.unwalked.len() > 1 {
            // The iteration order of the block map drives detection, spawn and merge order: an
            // exploration that does not fix it does not own its schedule.
            stats.divergence = Some("the input does not fix the block-map order".to_string());
            break;
        }
        run_input.choices = streams(&prefix);
        let (outcome, trace, diverged) = librun::run_traced(&run_input);
        let index = stats.schedules;
        stats.schedules += 1;
        if let Some(d) = diverged {
            stats.divergence = Some(d);
            break;
        }
        // Replaying a prefix must reproduce it exactly.
        if trace.len() < prefix.len() || prefix.iter().zip(&trace).any(|((l, c), t)| *l != t.label || *c != t.chosen) {
            stats.divergence = Some(format!("prefix {prefix:?} replayed as {:?}", trace.iter().map(|t| (&t.label, t.chosen)).collect::<Vec<_>>()));
            break;
        }
        stats.max_choice_points = stats.max_choice_points.max(trace.len());
        let deviations = |upto: usize| trace[..upto].iter().filter(|t| t.chosen != 0).count();
        stats.max_deviations = stats.max_deviations.max(deviations(trace.len()));
        visit(index, &outcome, &trace);
        for i in (prefix.len()..trace.len()).rev() {
            if deviation_bound.is_some_and(|b| deviations(i) + 1 > b) {
                continue;
            }
            for alt in 1..trace[i].options {
                let mut next: Vec<(String, usize)> = trace[..i].iter().map(|t| (t.label.clone(), t.chosen)).collect();
                next.push((trace[i].label.clone(), alt));
                stack.push(next);
            }
        }
    }
    stats
}

/// Runs one schedule twice and reports whether trace and outcome class are identical (the harness
/// owns every choice the subject makes).
pub fn replay_is_deterministic(input: &Input, prefix: &[(String, usize)]) -> Result<(), String> {
    let mut run_input = input.clone();
    run_input.choices = streams(prefix);
    let (o1, t1, _) = librun::run_traced(&run_input);
    let (o2, t2, _) = librun::run_traced(&run_input);
    if t1 != t2 {
        return Err(format!("traces differ: {t1:?} vs {t2:?}"));
    }
    // Compare as multisets: the order of the result map's files is not an observable.
    let normal = |o: &Outcome| {
        let mut v = o.to_json();
        for key in ["blocks", "diags"] {
            if let Some(list) = v.get_mut(key).and_then(|l| l.as_array_mut()) {
                list.sort_by_key(|e| e.to_string());
            }
        }
        v
    };
    if normal(&o1) != normal(&o2) {
        return Err(format!("outcomes differ: {} vs {}", o1.to_json(), o2.to_json()));
    }
    Ok(())
}
