//! FakeAi: a minimal HTTP/1.1 chat-completions endpoint on 127.0.0.1 that records every request
//! and answers (or misbehaves) as the request's own condition text tells it to:
//! `case=<nonce>;reply=<behaviour>;` anywhere in the user message selects the behaviour, so the
//! fault a request gets does not depend on arrival order.

use serde_json::{Value, json};
use std::collections::HashMap;
use std::io::{Read, Write};
use std::net::{TcpListener, TcpStream};
use std::sync::atomic::{AtomicUsize, Ordering};
use std::sync::{Arc, Mutex, OnceLock};

#[derive(Clone, Debug)]
pub struct Recorded {
    pub method: String,
    pub path: String,
    pub authorization: Option<String>,
    pub model: Option<String>,
    pub system: Option<String>,
    pub user: Option<String>,
}

pub struct FakeAi {
    pub url: String,
    records: Arc<Mutex<HashMap<String, Vec<Recorded>>>>,
    in_flight: Arc<AtomicUsize>,
}

/// Replies that are plain assistant messages.
pub const REPLIES: &[(&str, &str)] = &[
    ("ok-upper", "OK"),
    ("ok-lower", "ok"),
    ("ok-mixed", "oK"),
    ("ok-dot", "OK."),
    ("ok-lower-dot", "ok."),
    ("okay", "OKAY"),
    ("not-valid", "Not valid: x must be \"y\""),
    ("ok-bang", "OK!"),
    ("ok-space", " OK"),
    ("ok-sentence", "OK. But fix it"),
];

/// Endpoint faults (each must make the run fail).
pub const FAULTS: &[&str] = &["h400-json", "h400-plain", "h401-json", "h401-plain", "h404-json", "h404-plain", "invalid-json", "no-choices", "null-content", "close-mid-body", "empty-body"];

pub fn reply_text(behaviour: &str) -> Option<&'static str> {
    REPLIES.iter().find(|(k, _)| *k == behaviour).map(|(_, v)| *v)
}

fn respond(stream: &mut TcpStream, status: &str, content_type: &str, body: &str) {
    let _ = write!(stream, "HTTP/1.1 {status}\r\nContent-Type: {content_type}\r\nContent-Length: {}\r\nConnection: close\r\n\r\n{body}", body.len());
    let _ = stream.flush();
}

fn completion(content: Value) -> String {
    json!({
        "id": "chatcmpl-fake", "object": "chat.completion", "created": 1_700_000_000u64, "model": "fake",
        "choices": [{"index": 0, "message": {"role": "assistant", "content": content}, "finish_reason": "stop"}],
    })
    .to_string()
}

fn handle(mut stream: TcpStream, records: &Mutex<HashMap<String, Vec<Recorded>>>) {
    let _ = stream.set_read_timeout(Some(std::time::Duration::from_secs(5)));
    let mut buffer = Vec::new();
    let mut chunk = [0u8; 4096];
    let header_end = loop {
        if let Some(pos) = buffer.windows(4).position(|w| w == b"\r\n\r\n") {
            break pos + 4;
        }
        match stream.read(&mut chunk) {
            Ok(0) | Err(_) => return,
            Ok(n) => buffer.extend_from_slice(&chunk[..n]),
        }
    };
    let head = String::from_utf8_lossy(&buffer[..header_end]).to_string();
    let mut lines = head.lines();
    let request_line = lines.next().unwrap_or("");
    let mut parts = request_line.split(' ');
    let (method, path) = (parts.next().unwrap_or("").to_string(), parts.next().unwrap_or("").to_string());
    let mut content_length = 0usize;
    let mut authorization = None;
    for l in lines {
        if let Some((k, v)) = l.split_once(':') {
            match k.to_ascii_lowercase().as_str() {
                "content-length" => content_length = v.trim().parse().unwrap_or(0),
                "authorization" => authorization = Some(v.trim().to_string()),
                _ => {}
            }
        }
    }
    while buffer.len() < header_end + content_length {
        match stream.read(&mut chunk) {
            Ok(0) | Err(_) => return,
            Ok(n) => buffer.extend_from_slice(&chunk[..n]),
        }
    }
    let body: Value = serde_json::from_slice(&buffer[header_end..header_end + content_length]).unwrap_or(Value::Null);
    let message = |role: &str| {
        body.get("messages")?.as_array()?.iter().find(|m| m.get("role").and_then(Value::as_str) == Some(role))?.get("content")?.as_str().map(str::to_string)
    };
    let user = message("user");
    let text = user.clone().unwrap_or_default();
    let field = |name: &str| -> Option<String> {
        let start = text.find(&format!("{name}="))? + name.len() + 1;
        let end = text[start..].find(';')? + start;
        Some(text[start..end].to_string())
    };
    let nonce = field("case").unwrap_or_else(|| "?".to_string());
    let behaviour = field("reply").unwrap_or_else(|| "ok-upper".to_string());
    records.lock().unwrap().entry(nonce).or_default().push(Recorded {
        method,
        path,
        authorization,
        model: body.get("model").and_then(Value::as_str).map(str::to_string),
        system: message("system"),
        user,
    });
    let error = |kind: &str| json!({"error": {"message": format!("fake {kind}"), "type": "invalid_request_error", "param": null, "code": null}}).to_string();
    match behaviour.as_str() {
        "h400-json" => respond(&mut stream, "400 Bad Request", "application/json", &error("400")),
        "h400-plain" => respond(&mut stream, "400 Bad Request", "text/plain", "bad request"),
        "h401-json" => respond(&mut stream, "401 Unauthorized", "application/json", &error("401")),
        "h401-plain" => respond(&mut stream, "401 Unauthorized", "text/plain", "unauthorized"),
        "h404-json" => respond(&mut stream, "404 Not Found", "application/json", &error("404")),
        "h404-plain" => respond(&mut stream, "404 Not Found", "text/plain", "not found"),
        "invalid-json" => respond(&mut stream, "200 OK", "application/json", "{\"id\": \"x\", \"choices\": ["),
        "no-choices" => respond(&mut stream, "200 OK", "application/json", &json!({"id": "x", "object": "chat.completion", "created": 1, "model": "fake", "choices": []}).to_string()),
        "null-content" => respond(&mut stream, "200 OK", "application/json", &completion(Value::Null)),
        "empty-body" => respond(&mut stream, "200 OK", "application/json", ""),
        "close-mid-body" => {
            let body = completion(json!("OK"));
            let _ = write!(stream, "HTTP/1.1 200 OK\r\nContent-Type: application/json\r\nContent-Length: {}\r\nConnection: close\r\n\r\n{}", body.len() + 200, &body[..body.len() / 2]);
            let _ = stream.flush();
        }
        other => match reply_text(other) {
            Some(text) => respond(&mut stream, "200 OK", "application/json", &completion(json!(text))),
            None => respond(&mut stream, "200 OK", "application/json", &completion(json!(other))),
        },
    }
}

impl FakeAi {
    pub fn global() -> &'static FakeAi {
        static SERVER: OnceLock<FakeAi> = OnceLock::new();
        SERVER.get_or_init(|| {
            let listener = TcpListener::bind(("127.0.0.1", 0)).expect("bind fake endpoint");
            let port = listener.local_addr().unwrap().port();
            let records: Arc<Mutex<HashMap<String, Vec<Recorded>>>> = Arc::default();
            let in_flight = Arc::new(AtomicUsize::new(0));
            let (r2, f2) = (Arc::clone(&records), Arc::clone(&in_flight));
            std::thread::spawn(move || {
                for stream in listener.incoming().flatten() {
                    let (r3, f3) = (Arc::clone(&r2), Arc::clone(&f2));
                    f3.fetch_add(1, Ordering::SeqCst);
                    std::thread::spawn(move || {
                        handle(stream, &r3);
                        f3.fetch_sub(1, Ordering::SeqCst);
                    });
                }
            });
            FakeAi { url: format!("http://127.0.0.1:{port}/v1"), records, in_flight }
        })
    }

    /// A URL on which nothing listens (connection refused).
    pub fn refused_url() -> String {
        let listener = TcpListener::bind(("127.0.0.1", 0)).expect("bind");
        let port = listener.local_addr().unwrap().port();
        drop(listener);
        format!("http://127.0.0.1:{port}/v1")
    }

    /// Waits until no connection is being served (aborted requests have been seen or dropped).
    pub fn quiesce(&self) {
        for _ in 0..2000 {
            if self.in_flight.load(Ordering::SeqCst) == 0 {
                return;
            }
            std::thread::sleep(std::time::Duration::from_micros(500));
        }
    }

    /// Removes and returns the requests recorded for `nonce`.
    pub fn take(&self, nonce: &str) -> Vec<Recorded> {
        self.records.lock().unwrap().remove(nonce).unwrap_or_default()
    }
}
