#!/bin/bash
# C05 violation 3: Markdown HTML comment - a start tag that is never closed with '>' swallows the comment's own '-->'
# ("--" becomes an attribute, the '>' of '-->' closes the tag), so the look-alike is taken for a block tag.
BIN=$(readlink -f "$1"); d=$(mktemp -d); trap 'rm -rf "$d"' EXIT
mkdir "$d/.git"; cd "$d" || exit 2
printf '<!-- <block name="x" -->\n\ntext\n\n' > a.md          # no block tag at all: expected {} and exit 0
out=$(BLOCKWATCH_TERMINAL_MODE=1 "$BIN" list 2>&1); rc=$?; echo "$out" | head -5
bad=0
if [ "$rc" != 0 ] || echo "$out" | grep -q 'a.md'; then echo "VIOLATION: unterminated '<block name=\"x\" -->' taken for a start tag (exit $rc)"; bad=1; fi
printf '<!-- <block name="x" -->\n\ntext\n\n<!-- </block> -->\n' > a.md
out=$(BLOCKWATCH_TERMINAL_MODE=1 "$BIN" list 2>&1); echo "$out"
if echo "$out" | grep -q '"--"'; then echo "VIOLATION: block listed with a bogus \"--\" attribute"; bad=1; fi
exit $bad
