#!/bin/bash
# C05 violation 4 (low severity): Bash - every comment that starts with "#!" is dropped, not only a shebang on line 1,
# so a tag preceded by the noise character '!' is ignored.
BIN=$(readlink -f "$1"); d=$(mktemp -d); trap 'rm -rf "$d"' EXIT
mkdir "$d/.git"; cd "$d" || exit 2
printf '#!/bin/bash\nx=1\n#! <block name="x" keep-sorted>\nb\na\n#! </block>\n' > a.sh
out=$(BLOCKWATCH_TERMINAL_MODE=1 "$BIN" list 2>&1); echo "$out"
if echo "$out" | grep -q '"name": "x"'; then exit 0; fi
echo "VIOLATION: block x in '#!' comments not found"; exit 1
