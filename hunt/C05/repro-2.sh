#!/bin/bash
# C05 violation 2: Ruby =begin/=end comment - the first '#' of the comment text (here inside a quoted value) becomes a space.
BIN=$(readlink -f "$1"); d=$(mktemp -d); trap 'rm -rf "$d"' EXIT
mkdir "$d/.git"; cd "$d" || exit 2
printf '=begin\n<block name="a#b" line-pattern="^#">\n=end\n#x\n=begin\n</block>\n=end\n' > a.rb
out=$(BLOCKWATCH_TERMINAL_MODE=1 "$BIN" list 2>&1); echo "$out"
if echo "$out" | grep -q '"name": "a#b"'; then exit 0; fi
echo "VIOLATION: attribute value a#b not reported verbatim"; exit 1
