#!/bin/bash
# C05 violation 1: Markdown block quote - a start tag that continues on the next quoted line loses its attributes.
# usage: repro-1.sh /path/to/blockwatch ; exit 1 = violation shows, 0 = not.
BIN=$(readlink -f "$1"); d=$(mktemp -d); trap 'rm -rf "$d"' EXIT
mkdir "$d/.git"; cd "$d" || exit 2
bad=0
# (a) HTML comment inside a block quote
printf '> <!-- <block\n> name="x"> -->\n> text\n> <!-- </block> -->\n' > a.md
# (b) link-reference comment inside a block quote
printf '> [//]: # (<block\n> name="y">)\n>\n> text\n>\n> [//]: # (</block>)\n' > b.md
# (c) the second line carries a rule: it is dropped silently and the unsorted block passes
printf '> <!-- <block name="z"\n> keep-sorted> -->\n> b\n> a\n> <!-- </block> -->\n' > c.md
out=$(BLOCKWATCH_TERMINAL_MODE=1 "$BIN" list 2>&1); echo "$out"
echo "$out" | tr -d ' \n' | grep -q '"a.md":\[{"attributes":{"name":"x"}' || { echo "VIOLATION (a): a.md block does not have exactly name=x"; bad=1; }
echo "$out" | tr -d ' \n' | grep -q '"b.md":\[{"attributes":{"name":"y"}' || { echo "VIOLATION (b): b.md block does not have exactly name=y"; bad=1; }
echo "$out" | tr -d ' \n' | grep -q '"c.md":\[{"attributes":{"keep-sorted":"","name":"z"}' || { echo "VIOLATION (c): c.md block lost keep-sorted"; bad=1; }
BLOCKWATCH_TERMINAL_MODE=1 "$BIN" c.md >/dev/null 2>&1; rc=$?
[ "$rc" = 0 ] && { echo "VIOLATION (c): unsorted keep-sorted block in c.md passes validation (exit 0)"; bad=1; }
exit $bad
