#!/bin/bash
# C05 violation 5 (low severity): Markdown link-reference comment - closing '>' of a start tag on its own line,
# indented by a tab (or 4+ spaces): the comment is not recognised (tree-sitter-md ends the paragraph there).
BIN=$(readlink -f "$1"); d=$(mktemp -d); trap 'rm -rf "$d"' EXIT
mkdir "$d/.git"; cd "$d" || exit 2
printf '[//]: # (<block name="x"\n\t>)\n\ntext\n\n[//]: # (</block>)\n' > a.md
out=$(BLOCKWATCH_TERMINAL_MODE=1 "$BIN" list 2>&1); echo "$out" | head -5
if echo "$out" | grep -q '"name": "x"'; then exit 0; fi
echo "VIOLATION: block x not found / error"; exit 1
