#!/bin/sh
# Consequence of violation 1: when the violated rule sits on the continuation line, the block
# quote marker closes the tag before it, the rule is dropped and NO diagnostic is produced
# (exit status 0), although the block has 1 line and demands ==99.
# The same tag outside a block quote is reported (range 3:6-4:19).
BW="$1"
[ -x "$BW" ] || { echo "usage: $0 /path/to/blockwatch" >&2; exit 2; }
D=$(mktemp -d) || exit 2
trap 'rm -rf "$D"' EXIT
mkdir "$D/.git"
printf '# T\n\n> <!-- <block name="quoted"\n> line-count="==99"> -->\n> text\n>\n> <!-- </block> -->\n' > "$D/q.md"
OUT=$(cd "$D" && BLOCKWATCH_TERMINAL_MODE=1 "$BW" q.md 2>&1 </dev/null); RC=$?
echo "exit=$RC"; echo "$OUT"
C=$(printf '%s' "$OUT" | tr -d ' \n\r\t')
case "$C" in
  *'"code":"line-count"'*'"end":{"character":20,"line":4}'*'"start":{"character":8,"line":3}'*) echo "OK"; exit 0 ;;
  *) echo "VIOLATION: expected a line-count diagnostic with range 3:8-4:20, got none/other"; exit 1 ;;
esac
