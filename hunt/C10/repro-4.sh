#!/bin/sh
# Arguably outside C10 (malformed input): in Markdown the HTML comment delimiters are not blanked
# before tag parsing, so a start tag that lacks its own `>` is closed by the `>` of `-->`:
# `<!-- <block name="x" line-count="==99" -->` is accepted as a block (attribute `--`), and the
# diagnostic range 3:6-3:42 ends at the comment terminator. The same text in a .html file is
# rejected ("Unexpected closed block").
BW="$1"
[ -x "$BW" ] || { echo "usage: $0 /path/to/blockwatch" >&2; exit 2; }
D=$(mktemp -d) || exit 2
trap 'rm -rf "$D"' EXIT
mkdir "$D/.git"
printf '# T\n\n<!-- <block name="x" line-count="==99" -->\ntext\n\n<!-- </block> -->\n' > "$D/u.md"
OUT=$(cd "$D" && BLOCKWATCH_TERMINAL_MODE=1 "$BW" u.md 2>&1 </dev/null)
echo "$OUT"
C=$(printf '%s' "$OUT" | tr -d ' \n\r\t')
case "$C" in
  *'"code":"line-count"'*'"end":{"character":42,"line":3}'*) echo "VIOLATION: tag closed by the comment terminator; range 3:6-3:42 covers '<block ... -->'"; exit 1 ;;
  *) echo "OK: unterminated tag not reported as a block range"; exit 0 ;;
esac
