#!/bin/sh
# C10 violation 1, link-reference form: multi-line start tag in a `[//]: # (...)` comment inside
# a Markdown block quote. Reported range 3:12-4:1 (ends at the quote marker); required 3:12-4:16.
BW="$1"
[ -x "$BW" ] || { echo "usage: $0 /path/to/blockwatch" >&2; exit 2; }
D=$(mktemp -d) || exit 2
trap 'rm -rf "$D"' EXIT
mkdir "$D/.git"
printf '# T\n\n> [//]: # (<block line-count="==99"\n> name="quoted">)\n> text\n>\n> [//]: # (</block>)\n' > "$D/q.md"
OUT=$(cd "$D" && BLOCKWATCH_TERMINAL_MODE=1 "$BW" q.md 2>&1 </dev/null)
echo "$OUT"
C=$(printf '%s' "$OUT" | tr -d ' \n\r\t')
case "$C" in
  *'"end":{"character":16,"line":4}'*'"start":{"character":12,"line":3}'*) echo "OK: range is 3:12-4:16"; exit 0 ;;
  *'"end":{"character":1,"line":4}'*) echo "VIOLATION: range ends at the block-quote marker (4:1), expected 4:16"; exit 1 ;;
  *) echo "VIOLATION (other): expected a line-count diagnostic with range 3:12-4:16"; exit 1 ;;
esac
