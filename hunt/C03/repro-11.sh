#!/bin/bash
# usage: repro-N.sh /path/to/blockwatch ; exit 1 = violation shows, 0 = not
BW=$(readlink -f "$1"); [ -x "$BW" ] || { echo "usage: $0 <blockwatch binary>"; exit 2; }
T=$(mktemp -d); trap "rm -rf $T" EXIT; cd "$T"; mkdir .git
run() { RUST_BACKTRACE=0 BLOCKWATCH_TERMINAL_MODE=1 "$BW" "$@" </dev/null; }

# Makefile, arguable: (a) a comment continued with a backslash, (b) comments on recipe lines.
printf '# <block name="cont"> \\\n  still the same comment </block>\nX = 1\n' > a.mk
printf 'all:\n\t# <block name="recipe">\n\techo hi\n\t# </block>\n' > b.mk
rc=0
out=$(run list a.mk 2>&1); echo "== a.mk"; cat a.mk; echo "$out"
if echo "$out" | grep -q "not closed"; then echo "VIOLATION(arguable): the continuation line of a Makefile comment is not part of the comment"; rc=1; fi
out=$(run list b.mk 2>&1); echo "== b.mk"; echo "$out"
if ! echo "$out" | grep -q "recipe"; then echo "VIOLATION(arguable): comments on recipe lines are not seen"; rc=1; fi
exit $rc
