#!/bin/bash
# usage: repro-N.sh /path/to/blockwatch ; exit 1 = violation shows, 0 = not
BW=$(readlink -f "$1"); [ -x "$BW" ] || { echo "usage: $0 <blockwatch binary>"; exit 2; }
T=$(mktemp -d); trap "rm -rf $T" EXIT; cd "$T"; mkdir .git
run() { RUST_BACKTRACE=0 BLOCKWATCH_TERMINAL_MODE=1 "$BW" "$@" </dev/null; }

# Tags found where the language has no comment (exotic but valid inputs).
rc=0
t() { # file  -> violation if the tool reports a block or a pairing error for a file without any comment
  out=$(run list "$1" 2>&1); echo "== $1"; echo "$out"
  if [ "$out" != "{}" ]; then echo "VIOLATION in $1: the file contains no comment"; rc=1; fi
}
# HTML: <textarea> and <title> hold text only (RCDATA), "<!--" is not a comment there
printf '<title><!-- <block name="t"> --></title>\n<textarea><!-- </block> --></textarea>\n' > rcdata.html; t rcdata.html
# HTML: CDATA section in foreign (SVG) content
printf '<svg><text><![CDATA[<!-- <block name="c"> --> <!-- </block> -->]]></text></svg>\n' > cdata.html; t cdata.html
# XML: entity value literal
printf '<!DOCTYPE r [\n  <!ENTITY e "<!-- <block name=d> --> <!-- </block> -->">\n]>\n<r/>\n' > entity.xml; t entity.xml
# CSS: unquoted url() token
printf 'a { background: url(img/*<block>*/x/*</block>*/.png); }\n' > url.css; t url.css
# SQL: back-quoted (MySQL) identifier
printf 'SELECT 1 AS `-- <block name=i> </block>`;\n' > ident.sql; t ident.sql
exit $rc
