#!/bin/bash
# usage: repro-N.sh /path/to/blockwatch ; exit 1 = violation shows, 0 = not
BW=$(readlink -f "$1"); [ -x "$BW" ] || { echo "usage: $0 <blockwatch binary>"; exit 2; }
T=$(mktemp -d); trap "rm -rf $T" EXIT; cd "$T"; mkdir .git
run() { RUST_BACKTRACE=0 BLOCKWATCH_TERMINAL_MODE=1 "$BW" "$@" </dev/null; }

# Makefile: a trailing comment on a variable-assignment line is not seen as a comment.
printf 'X ?= $(Y) # <block name="e">\nY += 1 # </block>\n' > vars.mk
out=$(run list 2>&1); echo "$out"
# expected: one block "e" at line 1, column 13
if echo "$out" | grep -q '"name": "e"'; then exit 0; else echo "VIOLATION: block in trailing Makefile comments not found"; exit 1; fi
