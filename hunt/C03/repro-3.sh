#!/bin/bash
# usage: repro-N.sh /path/to/blockwatch ; exit 1 = violation shows, 0 = not
BW=$(readlink -f "$1"); [ -x "$BW" ] || { echo "usage: $0 <blockwatch binary>"; exit 2; }
T=$(mktemp -d); trap "rm -rf $T" EXIT; cd "$T"; mkdir .git
run() { RUST_BACKTRACE=0 BLOCKWATCH_TERMINAL_MODE=1 "$BW" "$@" </dev/null; }

# Swift: /* ... */ text at the start of a string literal (or after an interpolation) is treated as a comment.
printf 'let a = "/* <block name=decoy> */"\nlet b = 1\n' > a.swift
printf 'let m = """\n/* <block name="decoy2"> */\n/* </block> */\n"""\n' > b.swift
rc=0
out=$(run list a.swift 2>&1); echo "== a.swift"; echo "$out"
# expected: {} (no comment in the file); observed: error "Block at line 1 is not closed"
if echo "$out" | grep -q "not closed"; then echo "VIOLATION: tag inside a Swift string literal was parsed"; rc=1; fi
out=$(run list b.swift 2>&1); echo "== b.swift"; echo "$out"
if echo "$out" | grep -q "decoy2"; then echo "VIOLATION: block found inside a Swift multi-line string literal"; rc=1; fi
exit $rc
