#!/bin/bash
# usage: repro-N.sh /path/to/blockwatch ; exit 1 = violation shows, 0 = not
BW=$(readlink -f "$1"); [ -x "$BW" ] || { echo "usage: $0 <blockwatch binary>"; exit 2; }
T=$(mktemp -d); trap "rm -rf $T" EXIT; cd "$T"; mkdir .git
run() { RUST_BACKTRACE=0 BLOCKWATCH_TERMINAL_MODE=1 "$BW" "$@" </dev/null; }

# HTML (and HTML blocks in Markdown): "<!-- -->" at the start of a quoted attribute value is treated as a comment.
printf '<input value="<!-- <block name=decoy> -->">\n<p>text</p>\n<input value="<!-- </block> -->">\n' > a.html
printf '<div title="<!-- <block name=decoy> -->">\n</div>\n\ntext\n' > b.md
rc=0
out=$(run list a.html 2>&1); echo "== a.html"; echo "$out"
if echo "$out" | grep -q "decoy"; then echo "VIOLATION: block found inside HTML attribute values"; rc=1; fi
out=$(run list b.md 2>&1); echo "== b.md"; echo "$out"
if echo "$out" | grep -q "not closed"; then echo "VIOLATION: tag inside an HTML attribute value (Markdown HTML block) was parsed"; rc=1; fi
exit $rc
