#!/bin/bash
# usage: repro-8.sh /path/to/blockwatch ; exit 1 = violation shows, 0 = not
# Block content is not the text between the two comments:
#  (a) with CRLF line endings the "\r" that follows a line comment is dropped from the content (many grammars),
#  (b) Rust doc comments (/// and //!) and Markdown "[//]: # (...)" comments swallow the whole line terminator.
# The content is made visible with a check-lua script that returns it (control characters escaped).
BW=$(readlink -f "$1"); [ -x "$BW" ] || { echo "usage: $0 <blockwatch binary>"; exit 2; }
T=$(mktemp -d); trap "rm -rf $T" EXIT; cd "$T"; mkdir .git
cat > dump.lua <<'LUA'
function validate(ctx, content)
  return "[" .. content:gsub("%c", function(c) return string.format("\\x%02X", c:byte()) end) .. "]"
end
LUA
A='check-lua="dump.lua" check-lua-pattern="(?s).*"'
rc=0
check() { # file expected-escaped-content
  out=$(RUST_BACKTRACE=0 BLOCKWATCH_TERMINAL_MODE=1 "$BW" "$1" </dev/null 2>&1)
  got=$(echo "$out" | grep -o '"lua_error": "[^"]*"' | head -1)
  want="\"lua_error\": \"[$2]\""
  if [ "$got" = "$want" ]; then echo "ok        $1 $got"; else echo "VIOLATION $1: got $got, property requires $want"; rc=1; fi
}
# (a) CRLF: text between the end of "// <block ...>" and the start of "// </block>" is "\r\nX\r\n"
for spec in "c://" "cpp://" "h://" "go://" "java://" "kt://" "swift://" "rs://" "py:#" "rb:#" "sh:#" "mk:#" "sql:--" "js://" "cs://" "yaml:#"; do
  ext=${spec%%:*}; c=${spec#*:}
  printf '%s <block %s>\r\nX\r\n%s </block>\r\n' "$c" "$A" "$c" > "crlf.$ext"
  check "crlf.$ext" '\\x0D\\x0AX\\x0D\\x0A'
done
# (b) LF: text between the two comments is "\nX\n"
printf '/// <block %s>\nX\n/// </block>\n' "$A" > doc.rs
check doc.rs '\\x0AX\\x0A'
printf '//! <block %s>\nX\n//! </block>\n' "$A" > inner.rs
check inner.rs '\\x0AX\\x0A'
printf '[//]: # "<block %s>"\nX\n\n[//]: # (</block>)\n' "${A//\"/\'}" > ref.md
check ref.md '\\x0AX\\x0A\\x0A'
# control: the same with ordinary comments
printf '// <block %s>\nX\n// </block>\n' "$A" > plain.rs
check plain.rs '\\x0AX\\x0A'
printf '<!-- <block %s> -->\nX\n\n<!-- </block> -->\n' "$A" > html.md
check html.md '\\x0AX\\x0A\\x0A'
exit $rc
