#!/bin/bash
# usage: repro-N.sh /path/to/blockwatch ; exit 1 = violation shows, 0 = not
BW=$(readlink -f "$1"); [ -x "$BW" ] || { echo "usage: $0 <blockwatch binary>"; exit 2; }
T=$(mktemp -d); trap "rm -rf $T" EXIT; cd "$T"; mkdir .git
run() { RUST_BACKTRACE=0 BLOCKWATCH_TERMINAL_MODE=1 "$BW" "$@" </dev/null; }

# Ruby: inside a =begin/=end comment the first "#" anywhere in the comment is replaced by a space,
# so an attribute value containing "#" is not reported as written.
printf '=begin\n<block name="a#b" line-pattern="^#">\n=end\nx = 1\n# </block>\n' > a.rb
out=$(run list a.rb 2>&1); echo "$out"
if echo "$out" | grep -q '"name": "a#b"'; then exit 0; else echo "VIOLATION: attribute value a#b was changed"; exit 1; fi
