#!/bin/bash
# usage: repro-N.sh /path/to/blockwatch ; exit 1 = violation shows, 0 = not
BW=$(readlink -f "$1"); [ -x "$BW" ] || { echo "usage: $0 <blockwatch binary>"; exit 2; }
T=$(mktemp -d); trap "rm -rf $T" EXIT; cd "$T"; mkdir .git
run() { RUST_BACKTRACE=0 BLOCKWATCH_TERMINAL_MODE=1 "$BW" "$@" </dev/null; }

# Markdown: a start tag that spans two lines of a comment inside a block quote loses its attributes
# (the ">" block-quote marker of the continuation line is taken as the end of the tag).
printf '> <!-- <block\n> name="q"> -->\n> text\n>\n> <!-- </block> -->\n' > a.md
printf '> [//]: # (<block\n> name="q2">)\n\ntext\n\n[//]: # (</block>)\n' > b.md
rc=0
for f in a.md b.md; do
  out=$(run list "$f" 2>&1); echo "== $f"; echo "$out"
  if ! echo "$out" | grep -q '"name": "q'; then echo "VIOLATION in $f: attribute name lost"; rc=1; fi
done
exit $rc
