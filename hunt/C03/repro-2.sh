#!/bin/bash
# usage: repro-N.sh /path/to/blockwatch ; exit 1 = violation shows, 0 = not
BW=$(readlink -f "$1"); [ -x "$BW" ] || { echo "usage: $0 <blockwatch binary>"; exit 2; }
T=$(mktemp -d); trap "rm -rf $T" EXIT; cd "$T"; mkdir .git
run() { RUST_BACKTRACE=0 BLOCKWATCH_TERMINAL_MODE=1 "$BW" "$@" </dev/null; }

# C/C++: a // comment after "#define NAME value" (also #undef, #pragma, #error, #line) is not seen as a comment.
printf '#define LIMIT 10 // <block name="limits">\nint a;\n// </block>\n' > a.c
cp a.c b.cpp; cp a.c c.h; cp a.c d.cc
printf '#define DEBUG // <block name="cs">\nclass A {}\n// </block>\n' > e.cs
rc=0
for f in a.c b.cpp c.h d.cc e.cs; do
  out=$(run list "$f" 2>&1); echo "== $f"; echo "$out"
  if ! echo "$out" | grep -q '"line": 1'; then echo "VIOLATION in $f: start tag in the // comment after the directive was not found"; rc=1; fi
done
exit $rc
