#!/bin/bash
# usage: repro-N.sh /path/to/blockwatch ; exit 1 = violation shows, 0 = not
BW=$(readlink -f "$1"); [ -x "$BW" ] || { echo "usage: $0 <blockwatch binary>"; exit 2; }
T=$(mktemp -d); trap "rm -rf $T" EXIT; cd "$T"; mkdir .git
run() { RUST_BACKTRACE=0 BLOCKWATCH_TERMINAL_MODE=1 "$BW" "$@" </dev/null; }

# Bash: a comment that begins with "#!" is skipped as a shebang even when it is not on the first line.
printf '#!/bin/bash\nx=1\n#! note: <block name="x">\ny=2\n# </block>\n' > a.sh
out=$(run list a.sh 2>&1); echo "$out"
if echo "$out" | grep -q '"name": "x"'; then exit 0; else echo "VIOLATION: tag in a #! comment on line 3 was ignored"; exit 1; fi
