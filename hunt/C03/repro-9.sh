#!/bin/bash
# usage: repro-N.sh /path/to/blockwatch ; exit 1 = violation shows, 0 = not
BW=$(readlink -f "$1"); [ -x "$BW" ] || { echo "usage: $0 <blockwatch binary>"; exit 2; }
T=$(mktemp -d); trap "rm -rf $T" EXIT; cd "$T"; mkdir .git
run() { RUST_BACKTRACE=0 BLOCKWATCH_TERMINAL_MODE=1 "$BW" "$@" </dev/null; }

# Markdown: HTML comments that are inline (end of a heading, inside a paragraph, in a table cell) are not seen.
printf '# Title <!-- <block name="heading"> -->\n\ntext\n\n| a | b |\n|---|---|\n| <!-- </block> --> | x |\n' > a.md
printf 'some text <!-- <block name="para"> --> more\n\nfoo\n\nmore text <!-- </block> --> end\n' > b.md
rc=0
for f in a.md b.md; do
  out=$(run list "$f" 2>&1); echo "== $f"; echo "$out"
  if ! echo "$out" | grep -q '"line": 1'; then echo "VIOLATION in $f: block written in inline HTML comments not found (silently)"; rc=1; fi
done
exit $rc
