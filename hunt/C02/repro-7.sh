#!/bin/bash
# C02 violation 7: a file converted from CRLF to LF with one real content change. The diff lists
# every line as changed; lines that differ in the line ending only get an empty list of changed
# ranges, and the binary search over the line changes then walks away from the really changed
# line. The touched block is not selected.
BW=$(readlink -f "$1"); T=$(mktemp -d); trap 'rm -rf "$T"' EXIT; cd "$T"; mkdir .git
printf 'int x;\n// <block name="A" keep-sorted>\nb\na\nc\n// </block>\nint y;\n' > a.c
printf 'diff --git a/a.c b/a.c\nindex 7478116..5749732 100644\n--- a/a.c\n+++ b/a.c\n@@ -1,7 +1,7 @@\n' > d.patch
printf -- '-int x;\r\n-// <block name="A" keep-sorted>\r\n-b\r\n-a\r\n-d\r\n-// </block>\r\n-int y;\r\n' >> d.patch
printf -- '+int x;\n+// <block name="A" keep-sorted>\n+b\n+a\n+c\n+// </block>\n+int y;\n' >> d.patch
out=$("$BW" list < d.patch); echo "$out"
if ! echo "$out" | grep -q '"name": "A"'; then echo "VIOLATION: block A (content line d -> c) not selected"; exit 1; fi
exit 0
