#!/bin/bash
# C02 violation 1: deleting a line directly BEFORE a start tag (code outside the block)
# selects the untouched block and reports its pre-existing violation.
BW=$(readlink -f "$1"); T=$(mktemp -d); trap 'rm -rf "$T"' EXIT; cd "$T"; mkdir .git
# new (working tree) version; the old version had a line "x2" between "x1" and the start tag
printf 'x1\n// <block name="A" keep-sorted>\nb\na\n// </block>\ny\n' > a.rs
cat > d.patch <<'P'
diff --git a/a.rs b/a.rs
index 40cd3fc..5260fb8 100644
--- a/a.rs
+++ b/a.rs
@@ -1,5 +1,4 @@
 x1
-x2
 // <block name="A" keep-sorted>
 b
 a
P
out=$("$BW" list < d.patch); echo "$out"
"$BW" < d.patch; echo "exit code of the run: $?"
if echo "$out" | grep -q '"name": "A"'; then echo "VIOLATION: untouched block A selected"; exit 1; fi
exit 0
