#!/bin/bash
# C02 violation 2: deleted lines are recorded with their OLD line number. After an earlier hunk
# has shifted the lines, (a) a deletion inside a block is missed, (b) a deletion outside selects
# an untouched block.
BW=$(readlink -f "$1"); T=$(mktemp -d); trap 'rm -rf "$T"' EXIT; cd "$T"; mkdir .git; rc=0
# (a) 5 lines inserted on top, content line "c" of block A deleted (git diff -U0)
printf 'n1\nn2\nn3\nn4\nn5\nh1\nh2\nh3\nh4\nh5\nh6\nh7\nh8\n// <block name="A" keep-sorted>\nb\na\n// </block>\ny\n' > a.rs
cat > a.patch <<'P'
diff --git a/a.rs b/a.rs
index 06ec308..b2ee5b7 100644
--- a/a.rs
+++ b/a.rs
@@ -0,0 +1,5 @@
+n1
+n2
+n3
+n4
+n5
@@ -12 +16,0 @@ a
-c
P
out=$("$BW" list < a.patch); echo "(a) $out"
if ! echo "$out" | grep -q '"name": "A"'; then echo "VIOLATION (a): block A with a deleted content line is not selected"; rc=1; fi
# (b) 3 lines inserted on top, line "m1" AFTER the end tag deleted (git diff -U3)
printf 'n1\nn2\nn3\nh1\n// <block name="A" keep-sorted>\nb\na\n// </block>\nm2\n' > b.rs
cat > b.patch <<'P'
diff --git a/b.rs b/b.rs
index ee63456..e053690 100644
--- a/b.rs
+++ b/b.rs
@@ -1,7 +1,9 @@
+n1
+n2
+n3
 h1
 // <block name="A" keep-sorted>
 b
 a
 // </block>
-m1
 m2
P
out=$("$BW" list < b.patch); echo "(b) $out"
if echo "$out" | grep -q '"name": "A"'; then echo "VIOLATION (b): untouched block A selected"; rc=1; fi
exit $rc
