#!/bin/bash
# C02 violation 10 (minor): edits of the comment that carries the start tag, outside of the tag:
# (a) deleting the words in front of "<block" marks the "<" and selects the block,
# (b) deleting a comment line behind the tag is reported as a change of the content.
BW=$(readlink -f "$1"); T=$(mktemp -d); trap 'rm -rf "$T"' EXIT; cd "$T"; mkdir .git; rc=0
printf 'int x;\n/* <block name="A" keep-sorted> */\nb\na\n/* </block> */\n' > a.c
cat > a.patch <<'P'
diff --git a/a.c b/a.c
index 4553f92..cecbf43 100644
--- a/a.c
+++ b/a.c
@@ -2 +2 @@ int x;
-/* list of things <block name="A" keep-sorted> */
+/* <block name="A" keep-sorted> */
P
out=$("$BW" list < a.patch); echo "(a) $out"
if echo "$out" | grep -q '"name": "A"'; then echo "VIOLATION (a): block selected although neither tag nor content changed"; rc=1; fi
printf 'int x;\n/* <block name="B" keep-sorted>\n */\nb\na\n/* </block> */\n' > b.c
cat > b.patch <<'P'
diff --git a/b.c b/b.c
index 4728096..bf5c82e 100644
--- a/b.c
+++ b/b.c
@@ -3 +2,0 @@ int x;
-   keep this list sorted
P
out=$("$BW" list < b.patch); echo "(b) $out"
if echo "$out" | grep -q '"name": "B"'; then echo "VIOLATION (b): block selected (content flagged) although neither tag nor content changed"; rc=1; fi
exit $rc
