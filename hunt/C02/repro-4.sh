#!/bin/bash
# C02 violation 4: a deletion of characters inside the content is marked on the character that
# follows the deletion. When the deleted text is the tail of the content directly in front of the
# end-tag comment, or all of the content behind the start-tag comment, the mark falls outside
# the content and the block is not selected.
BW=$(readlink -f "$1"); T=$(mktemp -d); trap 'rm -rf "$T"' EXIT; cd "$T"; mkdir .git; rc=0
# (a) "ac" -> "a" on the line that carries the end tag
printf '/* <block name="A" keep-sorted> */\nb\na/* </block> */\ny\n' > a.c
cat > a.patch <<'P'
diff --git a/a.c b/a.c
index 11011e9..d34e90f 100644
--- a/a.c
+++ b/a.c
@@ -3 +3 @@ b
-ac/* </block> */
+a/* </block> */
P
out=$("$BW" list < a.patch); echo "(a) $out"
if ! echo "$out" | grep -q '"name": "A"'; then echo "VIOLATION (a): block A not selected"; rc=1; fi
# (b) the first content line " c" behind the start-tag comment removed
printf '/* <block name="B" keep-sorted> */\nb\na\n/* </block> */\ny\n' > b.c
cat > b.patch <<'P'
diff --git a/b.c b/b.c
index 537ba88..39f6d20 100644
--- a/b.c
+++ b/b.c
@@ -1 +1 @@
-/* <block name="B" keep-sorted> */ c
+/* <block name="B" keep-sorted> */
P
out=$("$BW" list < b.patch); echo "(b) $out"
if ! echo "$out" | grep -q '"name": "B"'; then echo "VIOLATION (b): block B not selected"; rc=1; fi
exit $rc
