#!/bin/bash
# C02 violation 5: git quotes paths with non-ASCII characters (core.quotePath default), with
# double quotes or control characters: "b/f\303\244.rs". Such files are silently skipped.
BW=$(readlink -f "$1"); T=$(mktemp -d); trap 'rm -rf "$T"' EXIT; cd "$T"; mkdir .git
printf '// <block name="A" keep-sorted>\nb\na\nc\n// </block>\n' > 'fä.rs'
cat > d.patch <<'P'
diff --git "a/f\303\244.rs" "b/f\303\244.rs"
index 28c9336..e745a60 100644
--- "a/f\303\244.rs"
+++ "b/f\303\244.rs"
@@ -1,4 +1,5 @@
 // <block name="A" keep-sorted>
 b
 a
+c
 // </block>
P
out=$("$BW" list < d.patch); echo "$out"; "$BW" < d.patch; echo "diff run exit: $?"
BLOCKWATCH_TERMINAL_MODE=1 "$BW" 2>&1 | grep message
if ! echo "$out" | grep -q '"name": "A"'; then echo "VIOLATION: touched block A in fä.rs not selected"; exit 1; fi
exit 0
