#!/bin/bash
# C02 violation 8: re-indenting only the end-tag line selects the block and flags its content as
# modified, so the pre-existing violation of an otherwise untouched block is reported.
BW=$(readlink -f "$1"); T=$(mktemp -d); trap 'rm -rf "$T"' EXIT; cd "$T"; mkdir .git
printf 'fn f() {\n    // <block name="A" keep-sorted>\n    b\n    a\n      // </block>\n}\n' > a.rs
cat > d.patch <<'P'
diff --git a/a.rs b/a.rs
index 4ee286d..110c0ea 100644
--- a/a.rs
+++ b/a.rs
@@ -5 +5 @@ fn f() {
-    // </block>
+      // </block>
P
out=$("$BW" list < d.patch); echo "$out"
if echo "$out" | grep -q '"name": "A"'; then echo "VIOLATION: block A selected by an edit of the end-tag line only"; exit 1; fi
exit 0
