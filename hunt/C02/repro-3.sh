#!/bin/bash
# C02 violation 3: in a replaced group with more removed than added lines the surplus removed
# lines are forgotten: deleting the last content line together with an edit of the end-tag line
# (or the first content line together with a trailing edit of the start-tag line) is not seen.
BW=$(readlink -f "$1"); T=$(mktemp -d); trap 'rm -rf "$T"' EXIT; cd "$T"; mkdir .git; rc=0
# (a) "c" deleted, end-tag line edited -> line-count violation introduced
printf '// <block name="A" line-count=">=3">\na\nb\n// </block> end of list\ny\n' > a.rs
cat > a.patch <<'P'
diff --git a/a.rs b/a.rs
index 1111111..2222222 100644
--- a/a.rs
+++ b/a.rs
@@ -1,6 +1,5 @@
 // <block name="A" line-count=">=3">
 a
 b
-c
-// </block>
+// </block> end of list
 y
P
out=$("$BW" list < a.patch); echo "(a) $out"; "$BW" < a.patch; echo "(a) diff run exit: $?"
BLOCKWATCH_TERMINAL_MODE=1 "$BW" a.rs 2>&1 | grep message
if ! echo "$out" | grep -q '"name": "A"'; then echo "VIOLATION (a): block A not selected"; rc=1; fi
# (b) first content line "a" deleted, a blank added after the start tag
printf 'x\n// <block name="B" line-count=">=3"> \nb\nc\n// </block>\n' > b.rs
cat > b.patch <<'P'
diff --git a/b.rs b/b.rs
index 1111111..2222222 100644
--- a/b.rs
+++ b/b.rs
@@ -1,6 +1,5 @@
 x
-// <block name="B" line-count=">=3">
-a
+// <block name="B" line-count=">=3"> 
 b
 c
 // </block>
P
out=$("$BW" list < b.patch); echo "(b) $out"
if ! echo "$out" | grep -q '"name": "B"'; then echo "VIOLATION (b): block B not selected"; rc=1; fi
exit $rc
