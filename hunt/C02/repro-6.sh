#!/bin/bash
# C02 violation 6: a removed line that starts with "-- " (every SQL comment, including the block
# tags themselves) appears in the diff as "--- ..." and is taken for a file header; the next hunk
# of the same file makes the tool fail with "Unexpected hunk found".
BW=$(readlink -f "$1"); T=$(mktemp -d); trap 'rm -rf "$T"' EXIT; cd "$T"; mkdir .git
{ printf 'select 0;\n'; for i in 1 2 3 4 5 6 7 8 9; do echo "select $i;"; done; printf -- '-- <block name="A" keep-sorted>\nb\na\nc\n-- </block>\nselect 1;\n'; } > q.sql
cat > d.patch <<'P'
diff --git a/q.sql b/q.sql
index 0c49ce6..c2e63fc 100644
--- a/q.sql
+++ b/q.sql
@@ -1,4 +1,3 @@
--- old comment
 select 0;
 select 1;
 select 2;
@@ -12,5 +11,6 @@ select 9;
 -- <block name="A" keep-sorted>
 b
 a
+c
 -- </block>
 select 1;
P
out=$("$BW" list < d.patch 2>&1); echo "$out" | head -3
if ! echo "$out" | grep -q '"name": "A"'; then echo "VIOLATION: touched block A not listed (tool fails on a well-formed git diff)"; exit 1; fi
exit 0
