#!/bin/bash
# C02 observation 11 (arguably outside the property): a path argument that names a hidden file
# does not make the tool validate every block of that file; only the touched block is checked.
BW=$(readlink -f "$1"); T=$(mktemp -d); trap 'rm -rf "$T"' EXIT; cd "$T"; mkdir .git .ci
printf '# <block name="A" keep-sorted>\n- b\n- a\n- c\n# </block>\n# <block name="B" keep-sorted>\n- b\n- a\n# </block>\n' > .ci/x.yml
cat > d.patch <<'P'
diff --git a/.ci/x.yml b/.ci/x.yml
index 1111111..2222222 100644
--- a/.ci/x.yml
+++ b/.ci/x.yml
@@ -1,4 +1,5 @@
 # <block name="A" keep-sorted>
 - b
 - a
+- c
 # </block>
P
out=$("$BW" list .ci/x.yml < d.patch); echo "$out"
if ! echo "$out" | grep -q '"name": "B"'; then echo "VIOLATION: block B of the file named by the path argument is not validated"; exit 1; fi
exit 0
