#!/bin/bash
# C02 violation 9: an edit of the start-tag attributes only is reported as a content change
# (is_content_modified: true) when the diff lists the (last) start-tag line as an added line:
# (a) the tag is split over two lines, (b) a line is inserted in front of the edited tag.
BW=$(readlink -f "$1"); T=$(mktemp -d); trap 'rm -rf "$T"' EXIT; cd "$T"; mkdir .git; rc=0
printf 'int x;\n/* <block name="A"\n   keep-sorted="asc"> */\nb\na\n/* </block> */\n' > a.c
cat > a.patch <<'P'
diff --git a/a.c b/a.c
index cecbf43..9b8c0a5 100644
--- a/a.c
+++ b/a.c
@@ -2 +2,2 @@ int x;
-/* <block name="A" keep-sorted> */
+/* <block name="A"
+   keep-sorted="asc"> */
P
out=$("$BW" list < a.patch); echo "(a) $out"
if echo "$out" | grep -q '"is_content_modified": true'; then echo "VIOLATION (a): tag-only edit flagged as content change"; rc=1; fi
printf 'int x;\nint k;\n// <block name="B" keep-sorted>\nb\na\n// </block>\n' > b.rs
cat > b.patch <<'P'
diff --git a/b.rs b/b.rs
index 3da24fc..7c5c661 100644
--- a/b.rs
+++ b/b.rs
@@ -2 +2,2 @@ int x;
-// <block name="A" keep-sorted>
+int k;
+// <block name="B" keep-sorted>
P
out=$("$BW" list < b.patch); echo "(b) $out"
if echo "$out" | grep -q '"is_content_modified": true'; then echo "VIOLATION (b): tag-only edit (plus an outside insertion) flagged as content change"; rc=1; fi
exit $rc
