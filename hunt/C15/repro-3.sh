#!/bin/sh
# C15 violation 2b: hunk body lines "--- a/foo" / "+++ b/top.py" (a removed line "-- a/foo" and an
# added line "++ b/top.py" of a text file) are re-read as file headers; the following hunk of
# notes.txt is then attributed to top.py, which is not named in the diff and matches no glob, and
# top.py contributes a block and a keep-sorted diagnostic.
BW="$1"; [ -x "$BW" ] || { echo "usage: $0 /path/to/blockwatch" >&2; exit 2; }
BW=$(readlink -f "$BW")
T=$(mktemp -d); trap 'rm -rf "$T"' EXIT
mkdir "$T/.git"; cd "$T" || exit 2
{ echo "++ b/top.py"; for i in 2 3 4 5 6 7 8 9 10 11 12 13 14 15; do echo "line $i"; done; echo "line sixteen"; for i in 17 18 19 20; do echo "line $i"; done; } > notes.txt
{ for i in 1 2 3 4 5 6 7 8 9 10 11 12 13 14; do echo "# filler $i"; done; echo '# <block name="t" keep-sorted="asc">'; echo b; echo a; echo '# </block>'; } > top.py
cat > in.diff <<'D'
diff --git a/notes.txt b/notes.txt
index ea8ae90..c32fb07 100644
--- a/notes.txt
+++ b/notes.txt
@@ -1,4 +1,4 @@
--- a/foo
+++ b/top.py
 line 2
 line 3
 line 4
@@ -13,7 +13,7 @@ line 12
 line 13
 line 14
 line 15
-line 16
+line sixteen
 line 17
 line 18
 line 19
D
env -u BLOCKWATCH_TERMINAL_MODE "$BW" list < in.diff > out 2> err; s=$?
echo "list exit=$s: $(tr -d ' \n' < out) $(head -1 err)"
env -u BLOCKWATCH_TERMINAL_MODE "$BW" < in.diff > out2 2> err2; s2=$?
echo "run exit=$s2: $(grep message err2)"
if grep -q '"top.py"' out || grep -q 'top.py' err2; then
  echo "VIOLATION: top.py (not in the diff, no glob) contributed a block/diagnostic"; exit 1
fi
exit 0
