#!/bin/sh
# C15 violation 1: with `git diff -U0` (recommended by the README for hooks) a file whose only
# hunk deletes lines at the top of the file ("@@ -1 +0,0 @@") is taken for a deleted file and is
# never examined, although it is named in the diff and still exists.
BW="$1"; [ -x "$BW" ] || { echo "usage: $0 /path/to/blockwatch" >&2; exit 2; }
BW=$(readlink -f "$BW")
T=$(mktemp -d); trap 'rm -rf "$T"' EXIT
mkdir "$T/.git"; cd "$T" || exit 2
# Working-tree state after deleting the first line ("junk1") of top.py:
printf '# <block name="x" keep-sorted="asc">\nb\na\n# </block>\nrest\n' > top.py
# Exactly what `git diff` (3 lines of context) prints for that change:
cat > u3.diff <<'D'
diff --git a/top.py b/top.py
index 1111111..2222222 100644
--- a/top.py
+++ b/top.py
@@ -1,4 +1,3 @@
-junk1
 # <block name="x" keep-sorted="asc">
 b
 a
D
# Exactly what `git diff -U0` prints for the same change:
cat > u0.diff <<'D'
diff --git a/top.py b/top.py
index 1111111..2222222 100644
--- a/top.py
+++ b/top.py
@@ -1 +0,0 @@
-junk1
D
env -u BLOCKWATCH_TERMINAL_MODE "$BW" list < u3.diff > u3.out 2>u3.err
env -u BLOCKWATCH_TERMINAL_MODE "$BW" list < u0.diff > u0.out 2>u0.err
echo "U3 list: $(tr -d ' \n' < u3.out)"
echo "U0 list: $(tr -d ' \n' < u0.out)"
if grep -q '"top.py"' u3.out && ! grep -q '"top.py"' u0.out; then
  echo "VIOLATION: top.py is named in the -U0 diff but was not examined"; exit 1
fi
exit 0
