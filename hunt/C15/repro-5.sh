#!/bin/sh
# C15 violation 4 (arguably outside the quantification, which varies directory trees and not git
# layouts): in a linked worktree or a submodule `.git` is a FILE.  blockwatch only accepts a `.git`
# DIRECTORY as the root marker, so it walks up into the enclosing repository and resolves the diff
# paths there: a file outside the repository that produced the diff is examined (here it yields a
# spurious keep-sorted error); without an enclosing repository the run fails with
# "Could not find the repository root directory".
BW="$1"; [ -x "$BW" ] || { echo "usage: $0 /path/to/blockwatch" >&2; exit 2; }
BW=$(readlink -f "$BW")
T=$(mktemp -d); trap 'rm -rf "$T"' EXIT
mkdir -p "$T/super/.git/modules/sub" "$T/super/sub"; cd "$T/super" || exit 2
printf '# <block name="p" keep-sorted="asc">\nb\na\n# </block>\n' > p.py          # superproject file, unsorted
printf '# <block name="p" keep-sorted="asc">\nb\nc\n# </block>\n' > sub/p.py      # submodule file, sorted
printf 'gitdir: ../.git/modules/sub\n' > sub/.git                                  # what git writes in a submodule/worktree
cat > sub.diff <<'D'
diff --git a/p.py b/p.py
index 1111111..2222222 100644
--- a/p.py
+++ b/p.py
@@ -1,4 +1,4 @@
 # <block name="p" keep-sorted="asc">
 b
-a
+c
 # </block>
D
cd sub || exit 2
env -u BLOCKWATCH_TERMINAL_MODE "$BW" < ../sub.diff > out 2> err; s=$?
echo "exit=$s $(grep -E 'message|^Error' err)"
if [ $s -ne 0 ]; then
  echo "VIOLATION: the diff of sub/ (whose p.py is sorted) was resolved against the enclosing repository's p.py"; exit 1
fi
exit 0
