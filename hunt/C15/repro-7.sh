#!/bin/sh
# Related defect (arguably inside the set, since the path IS named in the diff): a file name without
# a dot is looked up as an extension, so a changed submodule/directory called `java` (`go`, `c`, `js`,
# `py`, `php`, ...) in the diff is opened as a source file and the run aborts with "Is a directory".
BW="$1"; [ -x "$BW" ] || { echo "usage: $0 /path/to/blockwatch" >&2; exit 2; }
BW=$(readlink -f "$BW")
T=$(mktemp -d); trap 'rm -rf "$T"' EXIT
mkdir -p "$T/.git" "$T/java" "$T/vendor"; cd "$T" || exit 2
printf '# <block name="p">\nx = 2\n# </block>\n' > p.py
mkdiff() { cat <<D
diff --git a/$1 b/$1
index 1111111..2222222 160000
--- a/$1
+++ b/$1
@@ -1 +1 @@
-Subproject commit 1111111111111111111111111111111111111111
+Subproject commit 2222222222222222222222222222222222222222
diff --git a/p.py b/p.py
index bcd63c1..87eeb8f 100644
--- a/p.py
+++ b/p.py
@@ -1,3 +1,3 @@
 # <block name="p">
-x = 1
+x = 2
 # </block>
D
}
mkdiff vendor | env -u BLOCKWATCH_TERMINAL_MODE "$BW" list > out1 2> err1; s1=$?
mkdiff java   | env -u BLOCKWATCH_TERMINAL_MODE "$BW" list > out2 2> err2; s2=$?
echo "submodule 'vendor': exit=$s1 $(tr -d ' \n' < out1 | cut -c1-60)"
echo "submodule 'java'  : exit=$s2 $(head -1 err2)"
if [ $s1 -eq 0 ] && [ $s2 -ne 0 ]; then echo "VIOLATION: a changed submodule named java aborts the run"; exit 1; fi
exit 0
