#!/bin/sh
# C15 violation 5 (arguable: the property says paths are taken "exactly as git wrote them"): with
# git's default core.quotePath a non-ASCII (or quote/tab/backslash containing) path is written as
# +++ "b/\303\251 dir/p.py"; blockwatch keeps the quotes and escapes, finds no parser for the
# extension `py"` and silently skips the file, so a file named in the diff is not examined.
BW="$1"; [ -x "$BW" ] || { echo "usage: $0 /path/to/blockwatch" >&2; exit 2; }
BW=$(readlink -f "$BW")
T=$(mktemp -d); trap 'rm -rf "$T"' EXIT
mkdir -p "$T/.git" "$T/é dir"; cd "$T" || exit 2
printf '# <block name="p" keep-sorted="asc">\nb\nc\n# </block>\n' > 'é dir/p.py'
cat > q.diff <<'D'
diff --git "a/\303\251 dir/p.py" "b/\303\251 dir/p.py"
index 1111111..2222222 100644
--- "a/\303\251 dir/p.py"	
+++ "b/\303\251 dir/p.py"	
@@ -1,4 +1,4 @@
 # <block name="p" keep-sorted="asc">
 b
-a
+c
 # </block>
D
env -u BLOCKWATCH_TERMINAL_MODE "$BW" list < q.diff > out 2> err; s=$?
echo "exit=$s out=$(tr -d ' \n' < out) $(head -1 err)"
if ! grep -q 'p.py' out; then echo "VIOLATION: the file named in the diff was silently not examined"; exit 1; fi
exit 0
