#!/bin/sh
# C15 violation 3: a `.ignore` file (ripgrep/ag convention, not a git concept) removes files from the
# walk, although they are non-hidden, not git-ignored and match the positional glob.  A `.ignore`
# file in a directory ABOVE the repository root has the same effect.
BW="$1"; [ -x "$BW" ] || { echo "usage: $0 /path/to/blockwatch" >&2; exit 2; }
BW=$(readlink -f "$BW")
T=$(mktemp -d); trap 'rm -rf "$T"' EXIT
rc=0
# (a) .ignore inside the repository
mkdir -p "$T/r1/.git" "$T/r1/docs" "$T/r1/src"; cd "$T/r1" || exit 2
printf '# <block name="p">\nx = 1\n# </block>\n' > src/p.py
printf '# <block name="d">\nx = 1\n# </block>\n' > docs/d.py
printf 'docs/\n' > .ignore
BLOCKWATCH_TERMINAL_MODE=1 "$BW" list > all.out 2>&1
BLOCKWATCH_TERMINAL_MODE=1 "$BW" list 'docs/**' 'docs/d.py' '**/d.py' '*.py' > glob.out 2>&1
echo "(a) no glob : $(tr -d ' \n' < all.out | cut -c1-120)"
echo "(a) 4 globs : $(tr -d ' \n' < glob.out | cut -c1-120)"
grep -q '"docs/d.py"' all.out  || { echo "VIOLATION: docs/d.py not examined (no glob, interactive)"; rc=1; }
grep -q '"docs/d.py"' glob.out || { echo "VIOLATION: docs/d.py matches the globs but is not examined"; rc=1; }
# (b) .ignore outside (above) the repository root
mkdir -p "$T/outer/repo/.git" "$T/outer/repo/docs"; cd "$T/outer/repo" || exit 2
printf 'docs/\n' > ../.ignore
printf '# <block name="d">\nx = 1\n# </block>\n' > docs/d.py
BLOCKWATCH_TERMINAL_MODE=1 "$BW" list 'docs/**' > out 2>&1
echo "(b) docs/** : $(tr -d ' \n' < out | cut -c1-120)"
grep -q '"docs/d.py"' out || { echo "VIOLATION: a .ignore above the repository root hides docs/d.py"; rc=1; }
exit $rc
