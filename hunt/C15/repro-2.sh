#!/bin/sh
# C15 violation 2a: a removed line "-- ..." (SQL/Lua comment) shows up in the diff as "--- ..." and is
# re-read as a file header by the diff parser.  With a second hunk in the same file the whole run
# aborts ("Unexpected hunk found") - even when that file is excluded with --ignore or has an
# unsupported extension, i.e. a file outside the examined set contributes an error and the files
# that are in the set (p.py) are not examined.
BW="$1"; [ -x "$BW" ] || { echo "usage: $0 /path/to/blockwatch" >&2; exit 2; }
BW=$(readlink -f "$BW")
T=$(mktemp -d); trap 'rm -rf "$T"' EXIT
mkdir "$T/.git"; cd "$T" || exit 2
printf '# <block name="p">\nx = 2\n# </block>\n' > p.py
{ echo '-- <block name="q">'; echo 'SELECT 1;'; echo '-- </block>'; for i in 1 2 3 4 5 6 7 8 9 10 11 12; do echo "SELECT $i;"; done; echo '-- <block name="r">'; echo 'SELECT 101;'; echo '-- </block>'; } > q.sql
cp q.sql notes.txt
mkdiff() { cat <<D
diff --git a/p.py b/p.py
index bcd63c1..87eeb8f 100644
--- a/p.py
+++ b/p.py
@@ -1,3 +1,3 @@
 # <block name="p">
-x = 1
+x = 2
 # </block>
diff --git a/$1 b/$1
index d9d0098..dc9eaed 100644
--- a/$1
+++ b/$1
@@ -1,4 +1,3 @@
--- old comment
 -- <block name="q">
 SELECT 1;
 -- </block>
@@ -15,5 +14,5 @@ SELECT 10;
 SELECT 11;
 SELECT 12;
 -- <block name="r">
-SELECT 100;
+SELECT 101;
 -- </block>
D
}
rc=0
mkdiff q.sql > sql.diff
env -u BLOCKWATCH_TERMINAL_MODE "$BW" list --ignore q.sql < sql.diff > out1 2> err1; s1=$?
echo "ignored q.sql: exit=$s1 $(head -1 err1)"
mkdiff notes.txt > txt.diff
env -u BLOCKWATCH_TERMINAL_MODE "$BW" list < txt.diff > out2 2> err2; s2=$?
echo "unsupported notes.txt: exit=$s2 $(head -1 err2)"
if [ $s1 -ne 0 ] || ! grep -q '"p.py"' out1; then echo "VIOLATION: the ignored file q.sql aborts the run / p.py not examined"; rc=1; fi
if [ $s2 -ne 0 ] || ! grep -q '"p.py"' out2; then echo "VIOLATION: the unsupported file notes.txt aborts the run / p.py not examined"; rc=1; fi
exit $rc
