#!/bin/bash
# The first content line of a block is deleted in the same change that edits the start tag line:
# git emits "-oldtag -line +newtag"; the first deleted line is paired with the added line and the
# remaining deleted lines are dropped, so the deletion inside the block is never recorded.
. "$(dirname "$(readlink -f "$0")")/_common.sh"
cat > a.py <<'X'
items = [
    # <block name="foo" affects=":bar">
    "apple",
    "banana",
    "cherry",
    # </block>
]
other = 1
other = 2
other = 3
# <block name="bar">
doc = "apple banana cherry"
# </block>
X
commit init
sed -i 's/affects=":bar">/affects=":bar" keep-sorted>/; /"apple",/d' a.py
git diff > diff.patch
cat diff.patch
"$BW" < diff.patch; code=$?
echo "blockwatch exit code: $code (property requires 1: a line between foo's tags was deleted, bar untouched)"
echo "list: $("$BW" list < diff.patch)"
[ "$code" -eq 0 ] && exit 1
exit 0
