#!/bin/bash
# An added line whose text starts with "++ " shows up as "+++ ..." in the diff and is taken for a
# target-file header: the run fails with "Target without source".
. "$(dirname "$(readlink -f "$0")")/_common.sh"
cat > a.md <<'X'
# Title

<!-- <block name="foo"> -->
- item
<!-- </block> -->
X
commit init
cat > a.md <<'X'
# Title

<!-- <block name="foo"> -->
- item
++ plus item
<!-- </block> -->
X
git diff > diff.patch
cat diff.patch
"$BW" < diff.patch 2> err.txt; code=$?
cat err.txt
echo "blockwatch exit code: $code (property requires 0: foo has no rules, nothing to report)"
if [ "$code" -ne 0 ] && grep -q "Target without source" err.txt; then exit 1; fi
exit 0
