#!/bin/bash
# git quotes paths with non-ASCII characters by default ("b/h\303\251llo.py"); the quoted form is
# used verbatim as a path, matches no supported extension and the file is skipped silently.
. "$(dirname "$(readlink -f "$0")")/_common.sh"
cat > 'héllo.py' <<'X'
# <block name="foo" affects=":bar">
a = 1
# </block>
z
z
z
# <block name="bar">
c = 3
# </block>
X
commit init
sed -i 's/a = 1/a = 2/' 'héllo.py'
git diff > diff.patch
cat diff.patch
"$BW" < diff.patch; code=$?
echo "blockwatch exit code: $code (property requires 1: foo modified, bar untouched)"
echo "list: $("$BW" list < diff.patch)"
[ "$code" -eq 0 ] && exit 1
exit 0
