#!/bin/bash
# Same as repro-7 at the other end: the last content line is deleted together with an edit of the
# end tag line ("-line -oldtag +newtag"): the deleted content line is paired with the new tag line
# and the differences all lie at or after the column where the end-tag comment starts.
. "$(dirname "$(readlink -f "$0")")/_common.sh"
cat > a.py <<'X'
items = [
    # <block name="foo" affects=":bar">
    "apple",
    "banana",
    "cherry",
    # </block>
]
other = 1
other = 2
other = 3
# <block name="bar">
doc = "apple banana cherry"
# </block>
X
commit init
sed -i '/"cherry",/d; 0,/# <\/block>/s//# <\/block> (end of fruit list)/' a.py
git diff > diff.patch
cat diff.patch
"$BW" < diff.patch; code=$?
echo "blockwatch exit code: $code (property requires 1: a line between foo's tags was deleted, bar untouched)"
echo "list: $("$BW" list < diff.patch)"
[ "$code" -eq 0 ] && exit 1
exit 0
