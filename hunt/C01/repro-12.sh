#!/bin/bash
# ARGUABLE (depends on a git configuration): with diff.mnemonicPrefix=true git writes
# "--- i/a.py" / "+++ w/a.py"; the prefix is not removed and the run fails with
# 'Failed to read file "w/a.py"'.
. "$(dirname "$(readlink -f "$0")")/_common.sh"
cat > a.py <<'X'
# <block name="foo" affects=":bar">
a = 1
# </block>
z
z
z
# <block name="bar">
c = 3
# </block>
X
commit init
sed -i 's/a = 1/a = 2/; s/c = 3/c = 4/' a.py
git -c diff.mnemonicPrefix=true diff > diff.patch
cat diff.patch
"$BW" < diff.patch 2> err.txt; code=$?
cat err.txt
echo "blockwatch exit code: $code (property requires 0: foo and bar both modified)"
if [ "$code" -ne 0 ] && grep -q "Failed to read file" err.txt; then exit 1; fi
exit 0
