#!/bin/bash
# Deleted line inside a block is located by its OLD line number: after lines were inserted
# higher up in the file the deletion is looked for in the wrong place and the block is not
# marked modified.
. "$(dirname "$(readlink -f "$0")")/_common.sh"
cat > a.py <<'X'
x1
x2
x3
x4
x5
x6
# <block name="foo" affects=":bar">
a
b
c
# </block>
y
y
# <block name="bar">
d
# </block>
X
commit init
# new state: five lines inserted at the top, line "b" (inside foo) deleted
{ printf 'n1\nn2\nn3\nn4\nn5\n'; grep -v '^b$' a.py; } > a.py.new && mv a.py.new a.py
git diff -U0 > "$WORK/diff.patch"
cat diff.patch
"$BW" < diff.patch; code=$?
echo "blockwatch exit code: $code (property requires 1: foo modified, bar untouched)"
listing=$("$BW" list < diff.patch)
echo "list: $listing"
[ "$code" -eq 0 ] && exit 1
exit 0
