#!/bin/bash
# False positive, same root cause as repro-1: a line deleted far below a block is recorded with
# its OLD line number, which (after insertions at the top) falls inside the block in the new file.
. "$(dirname "$(readlink -f "$0")")/_common.sh"
cat > a.py <<'X'
top
# <block name="foo" affects=":bar">
a
b
c
# </block>
f1
f2
victim
f3
f4
# <block name="bar">
d
# </block>
X
commit init
# new state: five lines inserted at the top, line "victim" (3 lines below the end tag) deleted
{ printf 'n1\nn2\nn3\nn4\nn5\n'; grep -v '^victim$' a.py; } > a.py.new && mv a.py.new a.py
git diff -U0 > diff.patch
cat diff.patch
"$BW" < diff.patch; code=$?
echo "blockwatch exit code: $code (property requires 0: no block was modified)"
echo "list: $("$BW" list < diff.patch)"
[ "$code" -ne 0 ] && exit 1
exit 0
