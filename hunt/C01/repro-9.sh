#!/bin/bash
# A line inside a block changes its line ending (CRLF -> LF). git reports the line as edited
# ("-a = 1^M" / "+a = 1"), the diff parser strips the CR, both sides compare equal and the line
# counts as unchanged.
. "$(dirname "$(readlink -f "$0")")/_common.sh"
git config core.autocrlf false
printf '# <block name="foo" affects=":bar">\r\na = 1\r\nb = 2\r\n# </block>\r\nz\r\nz\r\nz\r\n# <block name="bar">\r\nc = 3\r\n# </block>\r\n' > a.py
commit init
printf '# <block name="foo" affects=":bar">\r\na = 1\nb = 2\r\n# </block>\r\nz\r\nz\r\nz\r\n# <block name="bar">\r\nc = 3\r\n# </block>\r\n' > a.py
git diff > diff.patch
cat -A diff.patch
"$BW" < diff.patch; code=$?
echo "blockwatch exit code: $code (property requires 1: the diff edits a line between foo's tags, bar untouched)"
echo "list: $("$BW" list < diff.patch)"
[ "$code" -eq 0 ] && exit 1
exit 0
