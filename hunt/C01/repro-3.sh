#!/bin/bash
# Same root cause as repro-1 (deleted lines carry OLD line numbers, everything else NEW ones):
# the list of changes is no longer sorted, the binary search over it goes astray and even a line
# ADDED inside a block is not seen.
. "$(dirname "$(readlink -f "$0")")/_common.sh"
{
  for i in $(seq 10); do echo "d$i = 0"; done      # lines 1-10, deleted below
  for i in $(seq 9); do echo "f$i = 0"; done       # lines 11-19
  echo "victim = 0"                                # line 20, deleted below
  echo "g1 = 0"; echo "g2 = 0"
  echo '# <block name="foo" affects=":bar">'
  echo "a = 1"
  echo "b = 2"
  echo '# </block>'
  echo "h = 0"; echo "h = 0"
  echo '# <block name="bar">'
  echo "c = 3"
  echo '# </block>'
} > a.py
commit init
grep -v -E '^(d[0-9]+|victim) = 0$' a.py | sed 's/^a = 1$/a = 1\nadded = 5/' > a.py.new && mv a.py.new a.py
git diff -U0 > diff.patch
cat diff.patch
"$BW" < diff.patch; code=$?
echo "blockwatch exit code: $code (property requires 1: a line was added inside foo, bar untouched)"
echo "list: $("$BW" list < diff.patch)"
[ "$code" -eq 0 ] && exit 1
exit 0
