#!/bin/bash
# Silent variant of repro-4/5: a line "-- draft" replaced by "++ final" reads as a complete
# "--- draft" / "+++ final" file header pair; the following hunks are attributed to a file called
# "final" and the change inside block foo is lost: exit 0 instead of an affects violation.
. "$(dirname "$(readlink -f "$0")")/_common.sh"
cat > notes.md <<'X'
-- draft
text

<!-- <block name="foo" affects=":bar"> -->
- item
<!-- </block> -->

more

<!-- <block name="bar"> -->
- doc
<!-- </block> -->
X
commit init
sed -i 's/^-- draft/++ final/; s/^- item/- item changed/' notes.md
git diff -U1 > diff.patch
cat diff.patch
"$BW" < diff.patch; code=$?
echo "blockwatch exit code: $code (property requires 1: foo modified, bar untouched)"
echo "list: $("$BW" list < diff.patch)"
[ "$code" -eq 0 ] && exit 1
exit 0
