#!/bin/bash
# A deleted line whose text starts with "-- " (an SQL comment) shows up in the diff as "--- ...",
# which the diff parser takes for a file header in the middle of a hunk: every later hunk of the
# file makes the whole run fail with "Unexpected hunk found".
. "$(dirname "$(readlink -f "$0")")/_common.sh"
cat > q.sql <<'X'
-- header comment
SELECT 0;
-- <block name="foo" affects=":bar">
SELECT 1;
SELECT 2;
-- </block>
SELECT 3;
SELECT 4;
SELECT 5;
SELECT 6;
SELECT 7;
SELECT 8;
-- <block name="bar">
SELECT 9;
-- </block>
X
commit init
# new state: header comment removed, both linked blocks edited -> the run must pass (exit 0)
sed -i '1d; s/SELECT 2;/SELECT 22;/; s/SELECT 9;/SELECT 99;/' q.sql
git diff -U0 > diff.patch
cat diff.patch
"$BW" < diff.patch 2> err.txt; code=$?
cat err.txt
echo "blockwatch exit code: $code (property requires 0: foo and bar are both modified)"
if [ "$code" -ne 0 ] && grep -q "Unexpected hunk" err.txt; then exit 1; fi
exit 0
