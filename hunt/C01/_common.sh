# Sourced by the repro scripts. Usage: repro-N.sh /path/to/blockwatch
set -u
BW=${1:?usage: $0 /path/to/blockwatch}
BW=$(readlink -f "$BW")
unset BLOCKWATCH_TERMINAL_MODE
export RUST_BACKTRACE=0 GIT_CONFIG_GLOBAL=/dev/null GIT_CONFIG_SYSTEM=/dev/null
WORK=$(mktemp -d)
trap 'rm -rf "$WORK"' EXIT
cd "$WORK"
git init -q .
git config user.email hunter@example.invalid
git config user.name hunter
git config commit.gpgsign false
commit() { git add -A && git commit -q -m "$1"; }
