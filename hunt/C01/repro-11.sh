#!/bin/bash
# A text file that is not UTF-8 (here Latin-1 notes.txt, an unsupported and therefore ignorable
# file) anywhere in the diff makes the whole run fail: stdin is read with read_to_string.
. "$(dirname "$(readlink -f "$0")")/_common.sh"
cat > a.py <<'X'
# <block name="foo" affects=":bar">
a = 1
# </block>
z
z
z
# <block name="bar">
c = 3
# </block>
X
printf 'caf\xe9 cr\xe8me\nsecond line\n' > notes.txt
commit init
sed -i 's/a = 1/a = 2/; s/c = 3/c = 4/' a.py
printf 'caf\xe9 cr\xe8me br\xfbl\xe9e\nsecond line\n' > notes.txt
git diff > diff.patch
grep -c '^Binary' diff.patch   # 0: git treats notes.txt as text
"$BW" < diff.patch 2> err.txt; code=$?
cat err.txt
echo "blockwatch exit code: $code (property requires 0: foo and bar both modified)"
if [ "$code" -ne 0 ] && grep -q "valid UTF-8" err.txt; then exit 1; fi
exit 0
