#!/usr/bin/env bash
# C16 violation 3: a file whose name maps to no grammar is NOT skipped silently "whatever it
# contains" in diff mode: a changed line that starts with "++ " or "-- " in such a file
#   (a) aborts the whole run ("Target without source"),
#   (b) aborts the whole run ("Unexpected hunk found") when another hunk follows, or
#   (c) silently wipes the recorded changes of a *known* file, hiding its violation.
# usage: repro-3.sh /path/to/blockwatch      exit 1 = violation shows, 0 = not
set -u
BW="$1"
T="$(mktemp -d)"
trap 'rm -rf "$T"' EXIT
cd "$T" || exit 2
mkdir .git
export RUST_BACKTRACE=0
rc=0

# ---------- (a) notes.txt gets the new line "++ see below"
printf 'a\n++ see below\nb\nc\n' > notes.txt
cat > a.patch <<'EOF'
diff --git a/notes.txt b/notes.txt
index de98044..5e3b5d0 100644
--- a/notes.txt
+++ b/notes.txt
@@ -1,3 +1,4 @@
 a
+++ see below
 b
 c
EOF
"$BW" list < a.patch > a.out 2>&1; ea=$?
echo "(a) exit=$ea: $(head -1 a.out)"
[ $ea -ne 0 ] && { echo "VIOLATION (a): unknown file notes.txt makes the run fail"; rc=1; }

# ---------- (b) q.lua loses the line "-- old comment", a second hunk follows
printf 'a\nb\nc\nd\ne\nf\ng\nh\ni\nj\nk2\n' > q.lua
cat > b.patch <<'EOF'
diff --git a/q.lua b/q.lua
index cf419c6..b9a8a6f 100644
--- a/q.lua
+++ b/q.lua
@@ -1,5 +1,4 @@
 a
--- old comment
 b
 c
 d
@@ -9,4 +8,4 @@ g
 h
 i
 j
-k
+k2
EOF
"$BW" list < b.patch > b.out 2>&1; eb=$?
echo "(b) exit=$eb: $(head -1 b.out)"
[ $eb -ne 0 ] && { echo "VIOLATION (b): unknown file q.lua makes the run fail"; rc=1; }

# ---------- (c) z.txt: line "-- a/x.rs" replaced by "++ b/x.rs"; x.rs gets an unsorted block
printf '// <block name="b" keep-sorted>\nb\na\n// </block>\n' > x.rs
printf 'l1\n++ b/x.rs\nl3\n' > z.txt
cat > c_known.patch <<'EOF'
diff --git a/x.rs b/x.rs
index 6a3e4ac..7d0ee93 100644
--- a/x.rs
+++ b/x.rs
@@ -1,3 +1,4 @@
-// <block name="b">
-x
+// <block name="b" keep-sorted>
+b
+a
 // </block>
EOF
cat > c_unknown.patch <<'EOF'
diff --git a/z.txt b/z.txt
index 33d4bbf..c639f98 100644
--- a/z.txt
+++ b/z.txt
@@ -1,3 +1,3 @@
 l1
--- a/x.rs
+++ b/x.rs
 l3
EOF
"$BW" < c_known.patch > c1.out 2>&1; e1=$?
cat c_known.patch c_unknown.patch | "$BW" > c2.out 2>&1; e2=$?
echo "(c) x.rs diff alone: exit=$e1 ; x.rs diff + z.txt diff: exit=$e2"
if [ $e1 -ne 0 ] && [ $e2 -eq 0 ]; then
  echo "VIOLATION (c): the change of unknown file z.txt hides the keep-sorted violation in x.rs"; rc=1
fi
exit $rc
