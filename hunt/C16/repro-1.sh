#!/usr/bin/env bash
# C16 violation 1: in diff mode a file whose name git has to quote (non-ASCII with the default
# core.quotePath=true, or a double quote / backslash / tab in the name) is silently skipped,
# although its extension (.rs / .go) is registered and the very same file is found by a file scan.
# usage: repro-1.sh /path/to/blockwatch      exit 1 = violation shows, 0 = not
set -u
BW="$1"
T="$(mktemp -d)"
trap 'rm -rf "$T"' EXIT
cd "$T" || exit 2
mkdir .git
export RUST_BACKTRACE=0

printf '// <block name="b">\ny\n// </block>\n' > 'ä.rs'
printf '// <block name="b">\ny\n// </block>\n' > 'x.rs'
printf '// <block name="b">\ny\n// </block>\n' > 'q"uote.rs'

# Exactly what `git diff --patch` prints (git 2.39, default configuration) after changing line 2
# of each of the three files from "x" to "y".
cat > diff.patch <<'EOF'
diff --git "a/q\"uote.rs" "b/q\"uote.rs"
index 6a3e4ac..b0b9f2e 100644
--- "a/q\"uote.rs"
+++ "b/q\"uote.rs"
@@ -1,3 +1,3 @@
 // <block name="b">
-x
+y
 // </block>
diff --git a/x.rs b/x.rs
index 6a3e4ac..b0b9f2e 100644
--- a/x.rs
+++ b/x.rs
@@ -1,3 +1,3 @@
 // <block name="b">
-x
+y
 // </block>
diff --git "a/\303\244.rs" "b/\303\244.rs"
index 6a3e4ac..b0b9f2e 100644
--- "a/\303\244.rs"
+++ "b/\303\244.rs"
@@ -1,3 +1,3 @@
 // <block name="b">
-x
+y
 // </block>
EOF

OUT="$("$BW" list < diff.patch 2>&1)"
echo "$OUT"
python3 - "$OUT" <<'EOF'
import json, sys
d = json.loads(sys.argv[1])
ok_control = "x.rs" in d
missing = [n for n in ("ä.rs", 'q"uote.rs') if n not in d]
if ok_control and missing:
    print("VIOLATION: x.rs is reported but these modified .rs files are silently skipped:", missing)
    sys.exit(1)
sys.exit(0)
EOF
