#!/usr/bin/env bash
# C16 (arguable) violation 4: every registered *extension* is also accepted as a complete,
# extension-less file name.  Files called `go`, `sh`, `cc`, `c`, `h`, `md`, `ts`, ... have no
# extension and are neither `Makefile` nor `makefile`, yet they are parsed (Go, Bash, C++ ...)
# instead of being skipped; a binary that happens to be called `cc` aborts the whole run.
# usage: repro-4.sh /path/to/blockwatch      exit 1 = violation shows, 0 = not
set -u
BW="$1"
T="$(mktemp -d)"
trap 'rm -rf "$T"' EXIT
cd "$T" || exit 2
mkdir .git bin
export RUST_BACKTRACE=0 BLOCKWATCH_TERMINAL_MODE=1
rc=0

printf '// <block name="b">\nx\n// </block>\n' > bin/go
printf '# <block name="b">\nx\n# </block>\n' > bin/sh
OUT="$("$BW" list 2>&1)"; echo "$OUT"
python3 - "$OUT" <<'EOF' || rc=1
import json, sys
d = json.loads(sys.argv[1])
hit = [k for k in ("bin/go", "bin/sh") if k in d]
if hit:
    print("VIOLATION: extension-less files parsed with a grammar:", hit); sys.exit(1)
EOF

# a (fake) compiled binary named "cc": 0xff 0xfe is not UTF-8
printf '\377\376\000\001binary' > bin/cc
"$BW" list > cc.out 2>&1; e=$?
echo "with bin/cc: exit=$e: $(head -1 cc.out)"
[ $e -ne 0 ] && { echo "VIOLATION: extension-less binary bin/cc aborts the run instead of being skipped"; rc=1; }
exit $rc
