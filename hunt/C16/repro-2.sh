#!/usr/bin/env bash
# C16 violation 2: an accepted `-E KEY=known` mapping with a compound key is silently ignored when
# a shorter suffix of the file name is itself a registered extension (`-E blade.php=html`,
# `-E d.ts=py`): the file is parsed with the shorter suffix's grammar, not with the mapped one.
# usage: repro-2.sh /path/to/blockwatch      exit 1 = violation shows, 0 = not
set -u
BW="$1"
T="$(mktemp -d)"
trap 'rm -rf "$T"' EXIT
cd "$T" || exit 2
mkdir .git
export RUST_BACKTRACE=0 BLOCKWATCH_TERMINAL_MODE=1

printf '<!-- <block name="b"> -->\n<p>x</p>\n<!-- </block> -->\n' > x.blade.php
printf '<!-- <block name="b"> -->\n<p>x</p>\n<!-- </block> -->\n' > control.tpl.x
printf '# <block name="b">\nx\n# </block>\n' > y.d.ts

A="$("$BW" list -E blade.php=html -E tpl.x=html 2>&1)"
B="$("$BW" list -E d.ts=py 2>&1)"
echo "$A"; echo "$B"
python3 - "$A" "$B" <<'EOF'
import json, sys
a = json.loads(sys.argv[1]); b = json.loads(sys.argv[2])
bad = []
# control: the same kind of compound key works when no shorter suffix is registered
if "control.tpl.x" in a and "x.blade.php" not in a:
    bad.append("-E blade.php=html accepted but x.blade.php is not parsed as HTML")
if "y.d.ts" not in b:
    bad.append("-E d.ts=py accepted but y.d.ts is not parsed as Python")
if bad:
    print("VIOLATION:", "; ".join(bad)); sys.exit(1)
sys.exit(0)
EOF
