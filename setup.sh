#!/bin/bash
# Offline build of the hooked blockwatch binary and the harness into /verif/target.
set -eu
cd "$(dirname "$0")"
export CARGO_NET_OFFLINE=true
mkdir -p target evidence
cargo build --release --offline --manifest-path /repo/Cargo.toml --features verif --bin blockwatch --target-dir /verif/target
cargo build --release --offline --manifest-path /verif/harness/Cargo.toml --target-dir /verif/target
