#!/usr/bin/env python3
"""Writes MANIFEST.json from the table below (kept in one place so it always validates)."""
import json, subprocess

CHECKS = {
 # id: (level, engine, technique, text, note, design_ref)
 "C01": ("model_checking", "E1", "explicit-state search (own parallel BFS; stateright selectable) over edit histories of labelled template repositories; real git diff in every state; diff-relative oracle from line labels known by construction",
         "8 templates (siblings, cross-file Markdown/HTML, nested, Rust multi-line tag in a 3-line comment, cycle + duplicate names + missing target + unnamed, repeated/blank lines, diff-syntax payload without trailing newline); every history of ≤2 (thorough ≤3) line insertions/deletions/replacements and tag-line edits, states merged by resulting contents; `git diff -U{0,1,3}` (thorough 0..10) fed to the real code in diff and diff+glob mode; L1 must/must-not/don't-care content flags from the labels of the diff's -/+ lines, L2 affects diagnostics from the observed flags (same-file, cross-file, comma lists, cycles, duplicates, missing targets), L3 exit status; plus worktree/--cached/commit-to-commit/rename -M diffs of all depth-≤1 (≤2) states through the CLI in real repositories",
         "git 2.39 trusted to print the diff; four classes of genuine defects are recorded as known findings (three pinned by the repository's own tests, one in the third-party unidiff crate); template T1 also carries a warning-severity sort rule so a second validator reports on the affects file", "§2 C01"),
 "C02": ("model_checking", "E1", "explicit-state search (own parallel BFS) over edit histories incl. character-level tag-line edits; real git diff; per-block edit classification fixes selection and content flag; verdicts compared with a full scan of the same tree",
         "6 rule-carrying templates (a file without trailing newline ending in an end tag, Python over two files, JS with content on the tag's line and a multi-byte character before the tag, JS tag on line 2 of a 3-line comment, Markdown, nested); every history of ≤2 (thorough ≤3) whole-line edits and 10 kinds of character-level tag edits (inside/outside the `<`…`>` span, end-tag comment, same-line content); `git diff -U{0,3}` (thorough 0,1,3,10) without path argument, with `**` and with one file as path argument; selected set, is_content_modified and every selected block's diagnostics vs the full scan",
         "lines pairwise distinct so git's diff equals the edit script; whole-line edits adjoining a tag line are don't-care; same known findings as C01", "§2 C02"),
 "C03": ("model_checking", "E1", "explicit-state search (level-synchronous parallel BFS; stateright selectable) over construction-kit segment sequences per grammar; real parser executed in every state against blocks known by construction",
         "for each of the 23 grammars (all 39 registered suffixes): every sequence of ≤3 (thorough ≤4) segments — code, string/markup decoys holding tag text, plain comments, start/end tags at every offset of 1- and 3-line comments of every comment form (line, block, doc, decorated, Markdown link-reference with all three title delimiters, HTML/XML), two tags per comment — closed into a balanced file, rendered LF and CRLF, with ASCII and multi-byte text around tags; attributes, line/byte column of `<`, exact content, pairing and source order compared with the construction",
         "tree-sitter grammars trusted on the kits' well-formed scaffolds (kit self-test); one leading line terminator of a content is don't-care; bounded scope", "§2 C03"),
 "C04": ("model_checking", "E1", "explicit-state search (parallel BFS; stateright selectable) over token soups per grammar + exhaustive one-mutation neighbourhoods of seed files + real git diffs of hostile files; supervised child process attributes aborts/hangs",
         "per grammar every sequence of ≤3 (thorough ≤4) tokens over comment delimiters, tag fragments, a rule-laden start tag, quotes, newline, NBSP, combining mark, emoji, and ≤4 (≤5) over the core tokens; every single-token insertion/replacement/deletion at every token boundary of a seed file for all 39 suffixes (thorough: pairs of insertions); every sequence of ≤3 (≤4) validator-hostile content lines (nan, inf, overflow, non-ASCII digits, CJK, …) × 8 rule configurations behind a rule-less block, with and without a byte order mark; diffs that modify one line of 3 000 / 60 000 (/ 400 000) bytes; per grammar 300 / 60 000 (/ 300 000) levels of nested brackets, elements or block quotes through the real binary, one process per run; every real `git diff` between files of ≤2 (≤3) diff-look-alike lines; each run in scan and diff mode must end in a report or an error, never a panic, abort or hang (10 s watchdog)",
         "\"any UTF-8 string\" is covered only through the token alphabets; tree-sitter internals are exercised, not modelled; two third-party findings (Markdown abort at 256 nested blocks, HTML/XML quadratic nesting) are recorded as known findings; 'promptly' = 10 s per run", "§2 C04"),
 "C05": ("model_checking", "E1", "explicit-state search (parallel BFS; stateright selectable) over attribute lists printed into six host comment forms; print/parse round trip against the printed AST",
         "every attribute list of 0..2 (thorough 0..3) attributes over (5 names incl. non-ASCII and duplicate) × (14 value forms: bare, unquoted ASCII / non-ASCII / with - and _, empty, with space, `>`, other quote, `=<`, `</block>`, non-ASCII, a whole start tag) × 3 separators (CR LF in the long lists), lists of 4–6 attributes over five variants, values holding the comment marker of every line-comment form of every grammar × 3 `=` layouts, 3 closing spellings, 8 surrounding noises, in `#`, `/* */`, `<!-- -->`, `//`, SQL `--` and Rust `///` hosts (names and values also containing `--`, `//`, `#`); attributes (last duplicate wins) and position of `<` compared; 17 look-alikes × noises × hosts alone and beside real blocks; 6 end-tag spellings",
         "4–6 attributes not enumerated; host comments delivered by tree-sitter (C03)", "§2 C05"),
 "C06": ("model_checking", "E1", "explicit-state search (level-synchronous parallel BFS; stateright selectable) over content-line sequences, real validator executed in every state against a reference sorter",
         "every sequence of ≤4 (thorough ≤5) content lines over a 16-line alphabet (ordered, equal, prefix-related, indented, trailing blank, blank, numeric-looking, pattern lines, case) plus an extended unicode/number alphabet, under every direction spelling × pattern (incl. empty-capable group, end-anchored, to end of line) × format, next to violating companion blocks of the other sync validators, also with CRLF line ends and in a Markdown host whose start comment goes on after the tag; the real parse+validate pipeline runs in every state and must agree with the reference on presence, uniqueness and location of the diagnostic",
         "regex crate trusted for which substring matches; tree-sitter trusted to deliver one-line # comments; bounded scope (longer blocks and other alphabets are not covered)", "§2 C06–C09"),
 "C07": ("model_checking", "E1", "explicit-state search (level-synchronous parallel BFS; stateright selectable) over content-line sequences against a reference duplicate finder",
         "every sequence of ≤4 (thorough ≤5) lines over a 12-line alphabet with repeated keys, keys differing only in indentation / trailing blanks / outside the regex group, blank and non-matching lines, × {bare, empty, group regex, plain regex, anchored regex, group inside a longer match, empty-capable group, end-anchored, group in one branch only}, next to violating companion blocks of the other sync validators; also CRLF, byte order mark, Markdown host with a start comment that goes on after the tag, and one lonely block carrying all four sync rules under flag selections",
         "regex crate trusted; bounded scope", "§2 C06–C09"),
 "C08": ("model_checking", "E1", "explicit-state search (level-synchronous parallel BFS; stateright selectable) over content-line sequences against a reference matcher",
         "every sequence of ≤4 (thorough ≤5) lines over a 12-line alphabet of matching, non-matching, indented, blank, whitespace-only, partially matching and multi-byte lines and a line with a lone CR × 6 patterns, with companions; also CRLF, byte order mark, Markdown multi-line-comment host, lonely block with all sync rules × flag selections",
         "regex crate trusted; bounded scope", "§2 C06–C09"),
 "C10": ("model_checking", "E1", "exhaustive enumeration (explicit-state grid) of comment layouts × rule kinds; reported range compared with the constructed position of key / tag",
         "full product of 8 host comment forms × 0..2 comment lines before and after the tag × multi-line tag × content on the tag's line × 3 indentations × multi-byte text × 9 rule kinds (sorted, sorted by regex group, unique, unique by regex group, unique by a regex key that runs to the end of the line, pattern; line-count, check-lua, affects) × offending line 1..3 (18.8k applicable cases), plus the same rules in every comment form of every grammar's construction kit (23 grammars / 39 suffixes × tag layouts × LF/CRLF, 13k cases): the range must delimit exactly the offending key, or the start tag from `<` to `>`",
         "check-ai's range shares check-lua's code path and is exercised in C19", "§2 C10"),
 "C11": ("model_checking", "E1+E2", "explicit-state search over repository configurations through the real CLI + choice-prefix DFS over block-map and validator-body orders through the library",
         "every repository of ≤2 (thorough ≤3) blocks over 2 files × 13 rule combinations (two of them flagging the same position with two rules) (each rule absent / satisfied / violated by construction) × 7 severity spellings: exit status 1 iff an error-severity diagnostic is expected, stderr one JSON object with every expected (file, block, code, severity) exactly once, root-relative keys, nothing printed without diagnostics, `list` exits 0 with all blocks; the same states under every block-map order × every order of the validator thread bodies (≈470k executions) for the exactly-once clause",
         "which rules a block violates is fixed by construction (C06–C09 decide rule semantics)", "§2 C11"),
 "C12": ("model_checking", "E1", "explicit-state search (parallel BFS; stateright selectable) over well-nested kit files; in every state every single-tag damage is applied and the real code must fail naming the file",
         "for each grammar (all 39 suffixes) every well-nested file of ≤2 (thorough ≤3) kit segments × every tag × {deleted, duplicated, lost with its comment} × {alone, first, last, between healthy files; through the CLI also present only as a symbolic link} × {scan, list, diff, diff+glob, diff+non-matching glob}, plus stray tags (`</ block>`, `< /block >`, `<block>`, `</block>`) appended in a comment of their own: the run must fail at parsing with an error naming the damaged file",
         "the all-lines-added diff emitter is validated against real git before the search; bounded scope", "§2 C12"),
 "C13": ("fault_enumeration", "E1+E2", "exhaustive enumeration of malformation × position × placement × block-map order, middle position under every schedule of the validator seams; real CLI for status and message",
         "81 malformations over every rule kind (unknown direction/format, non-numeric keys at each position, bad regex in 5 attributes, 16 bad line-count expressions, colon-less affects references, unknown severities, Lua script empty/missing/directory/invalid UTF-8/no validate, empty AI condition, missing key) × {alone, first, middle, last} × {same file, own file} × {as is, with satisfied sibling rules, nested in a healthy block, in a Markdown file} × all map orders, alone/middle also in diff mode with a non-matching path argument, the middle position under all schedules; every malformation × 3 placements through the real CLI: never exit 0, never a panic, always a message",
         "the property's qualifiers are honoured (content present, violation present, block modified)", "§2 C13"),
 "C14": ("model_checking", "E1", "exhaustive enumeration (explicit-state grid) of violating-validator subsets × layouts × flag subsets × block-map orders through the library with recording AI endpoint and logging Lua scripts; CLI for flag parsing",
         "all 128 subsets of validators having a violating block × 3 layouts × {--disable, --enable} × flag sets (quick: sizes ≤2 and ≥6 everywhere, all 128 where all seven fire; thorough: all) × all map orders: codes = unrestricted codes minus / restricted to the named validators, status follows, no AI request and no Lua call from a switched-off validator; 19 flag spellings through the real CLI (repetition = union; both flags, unknown, padded, comma names rejected before validation)",
         "which validator fires on which block is fixed by construction", "§2 C14"),
 "C15": ("model_checking", "E1", "exhaustive enumeration (explicit-state grid) of trees × glob sets × ignore sets × diffs against a set-algebra reference; library over an in-memory tree + real CLI in real directories with hidden/git-ignored files, real git diffs, every cwd",
         "245k library cases (all trees of ≤3 paths incl. directories named a and b, spaces, dots × 0..2 globs × 0..2 ignores × diff naming ≤2 files or nothing) and 3.5k CLI cases × every directory as cwd (16k runs) with hidden files, a .gitignore'd directory and real `git diff`: listed files = ((walk ∖ hidden ∖ git-ignored) ∩ globs ∪ diff files) ∖ --ignore",
         "globset decides glob/path matching (same crate and options as the documented forms)", "§2 C15"),
 "C16": ("model_checking", "E1", "exhaustive enumeration (stateright grid) of suffix × name shape × -E mapping × content × mode against a reference suffix lookup and the kit's constructed blocks",
         "39 registered suffixes × 11 file-name shapes (x.S, x.y.S, hidden via diff, dotted directories, names with spaces, upper-cased, .bak, no dot, ~, doubled suffix, suffix as directory) × 4 `-E` mappings × {native probe, unbalanced probe, garbage} × {scan, diff, diff+glob}; every ordered pair of 164 names (two stems, .bak, dot-less, look-alikes of compound suffixes) in one run, both walked or the second named by the diff only, each read exactly as alone; mapped names must yield exactly the constructed blocks, unmapped names nothing and no error; every ordered pair of names also as a rename + edit diff; whole-file-name -E keys; CLI slice for -E parsing/validation (rejected before any file is read)",
         "reference lookup written from the property text; the registered-suffix table is cross-checked with the implementation's", "§2 C16"),
 "C17": ("model_checking", "E1", "explicit-state reachability search inside the Lua interpreter (BFS over the object graph from the script's environment), run through the real CLI for every mode value",
         "for 9 values of BLOCKWATCH_LUA_MODE a probe script enumerates every table/function/userdata reachable from _G, _ENV and the string metatable through fields, keys and metatables (≈130 values, ≈270 edges per mode) and returns all reachable function paths; default class: the set must equal the allow-list (base minus dofile/loadfile/require + coroutine/table/string/utf8/math) with none of io/os/package/debug/require/dofile/loadfile; safe adds io/os/package/require but no debug and no working native loader; unsafe adds debug and native loading; 19 concrete escape attempts per default-class value with a canary file",
         "Lua has no ambient authority beyond reachable values; upvalues of C library functions are unreachable without debug; behaviour of package.loadlib is probed by calling it", "§2 C17"),
 "C18": ("model_checking", "E1+E2", "explicit-state search over block sets × stateless choice-prefix DFS over every schedule of the scheduling seams (JoinSet delivery order, thread-body order) and every block-map order; real code re-executed per schedule",
         "every set of ≤3 (thorough ≤4) scripted blocks over 9 script behaviours (incl. a script keeping state outside validate) × 2 files; for each, all delivery orders of the check-lua JoinSet × thread-body orders × map orders (55k executions quick); scripts log every call, so exactly-once, file, line, attributes and content are compared; any failing script must fail the run in every schedule; every block set also in diff mode with a path argument that matches no file; plus content × pattern × attribute cases, start tags split over lines in three hosts, 8/16/40 blocks under 3 delivery orders (capped) and a labelled free-running CLI supplement",
         "tokio JoinSet contract trusted; intra-body interleavings not explored (bodies share only an immutable Arc)", "§2 C18"),
 "C19": ("fault_enumeration", "E1+E2", "exhaustive enumeration of reply/fault assignments to block sets × all delivery orders (choice-prefix DFS over the seams) against a recording fake endpoint keyed by request content",
         "every set of ≤2 (thorough ≤3) AI blocks over 10 replies and 11 endpoint faults × 2 files × all delivery orders; exactly one faithful request per block (path, bearer key, model, verbatim user message), OK-class ⇒ no diagnostic, other reply ⇒ one diagnostic quoting it on the start tag, any fault ⇒ run fails in every order; verbatim transport of 8 conditions × 7 contents × 4 patterns (quotes, backslashes, newlines, control characters, Unicode); whole-run faults: no key, empty key, connection refused",
         "async-openai/reqwest trusted for wire encoding; 5xx/429 (retried by the library) are outside the property's fault set", "§2 C19"),
 "C20": ("model_checking", "E2", "stateless exploration of every owned order (block-map iteration, file discovery, diff-section order) × choice-prefix DFS over the scheduling seams; one canonical observable per repository; CLI for every cwd",
         "11 catalogue repositories (a positional argument that is the plain name of a directory (CLI only), a type change whose diff has a deleted-file and a new-file section for one path, one error file among warning-only files (CLI only), mixed severities, cross-file affects in diff mode, diff + glob, Lua (stateless and stateful) + AI + sync rules, list with diff, a malformed rule, one block name modified in two files, a directory named like a source file): all block-map orders × file-discovery orders (quick: 3 of them) × all diff-section orders × every schedule of the seams (quick: ≤3 deviations, 27k executions; thorough: all) must give one single status + diagnostic multiset / listed blocks / error; every directory as cwd through the real CLI; fresh processes with 1/16 runtime workers as a labelled sampling supplement",
         "per-process hash seeds of maps other than the block map and real thread timing are not enumerable: argued order-insensitive, sampled by the supplement", "§2 C20"),
 "C09": ("model_checking", "E1", "explicit-state search (parallel BFS; stateright selectable) over content-line sequences × layouts, each state carrying the full (operator, spacing, N) grid",
         "every sequence of ≤5 (thorough ≤7) content lines over {statement, blank, whitespace-only, indented, comment, nested start/end tag} in every layout (tag on own line, content on the tag's line, both tags in one comment, adjacent comments) × 5 operators × 3 spacings × N 0..7, incl. layouts whose start tags all have a tab or a line break after `<block`; companions of the other sync validators; CRLF and byte order mark phases; lonely block with all sync rules × flag selections; presence and data.actual/op/expected of the diagnostic compared with the reference count",
         "bounded scope; large N and large blocks only through the grid", "§2 C06–C09"),
}

NOT_YET = {
}

ALL = [f"C{n:02d}" for n in range(1, 21)]

def main():
    commits = subprocess.run(["git", "-C", "/repo", "log", "--format=%H %s"], capture_output=True, text=True).stdout.splitlines()
    hook_commits = [c.split()[0] for c in commits if c.split(" ", 1)[1].startswith("verif:")]
    checks = []
    for pid in ALL:
        if pid not in CHECKS:
            continue
        level, engine, technique, text, note, ref = CHECKS[pid]
        checks.append({
            "property_id": pid,
            "quick_cmd": f"./check {pid} --tier quick",
            "thorough_cmd": f"./check {pid} --tier thorough",
            "evidence_file": f"/verif/evidence/{pid}.json",
            "replay_cmd_template": f"./check {pid} --replay {{path}}",
            "engine": engine,
            "level_claimed": {"category": level, "text": text, "design_ref": ref},
            "level_note": note,
            "technique": technique,
        })
    manifest = {
        "version": 1,
        "setup_cmd": "./setup.sh",
        "hooks": {
            "guard": "cargo feature `verif` (off by default)",
            "enable": "cargo build --features verif (done by ./check and ./setup.sh into /verif/target; the harness depends on /repo with features=[\"verif\"])",
            "baseline_off_cmd": "cd /repo && cargo nextest run --workspace --no-fail-fast --test-threads 8 --offline",
            "source_commits": hook_commits,
            "add_only": True,
        },
        "engines": [
            {"name": "E1", "path": "harness/src/engine.rs", "serves_properties": sorted(p for p, c in CHECKS.items() if "E1" in c[1]),
             "kind_free_text": "explicit-state search over input histories (own level-synchronous parallel BFS with an exact visited set, 16 threads; BWMC_ENGINE=stateright runs the same spaces under stateright 0.31 and the thorough tiers cross-check the counts); the invariant evaluated in every state runs the real blockwatch code on the input the state denotes and compares with a reference model"},
            {"name": "E2", "path": "harness/src/e2.rs", "serves_properties": sorted(p for p, c in CHECKS.items() if "E2" in c[1]),
             "kind_free_text": "deviation-bounded stateless exploration (choice-prefix DFS) of every schedule the seams in src/verif_hooks.rs expose: JoinSet completion order, order of validator thread bodies, block-map iteration order; the real code is re-executed once per schedule"},
        ],
        "checks": checks,
        "not_applicable": [{"property_id": p, "reason": NOT_YET.get(p, "check not built yet in this round; see DESIGN.md §2 for the planned exploration")} for p in ALL if p not in CHECKS],
        "notes": "All checks: ./check <ID> --tier quick|thorough rebuilds the hooked binary and the harness from /repo's working tree, explores, rewrites evidence/<ID>.json, prints KNOWN-FINDING lines for entries of known_findings.json and VIOLATION lines (exit 1) for anything else; exit 2 is a machinery error, never a verdict.",
    }
    json.dump(manifest, open("/verif/MANIFEST.json", "w"), indent=1, ensure_ascii=False)
    print("checks:", len(checks), "not_applicable:", len(manifest["not_applicable"]))

main()
