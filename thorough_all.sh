#!/bin/bash
# Runs every thorough tier one after the other on private copies of the binaries currently built
# in /verif/target, writing evidence and replays under the current directory (used with `vp run`
# for long background runs; not a registered check — the registered thorough commands are
# `./check <ID> --tier thorough`, which rebuild from /repo).
mkdir -p bin && cp /verif/target/release/bwmc /verif/target/release/blockwatch bin/ || exit 2
export BWMC_VERIF_DIR=$PWD BWMC_BIN=$PWD/bin/blockwatch
cp /verif/known_findings.json . 2>/dev/null
for id in ${@:-C01 C02 C03 C04 C05 C06 C07 C08 C09 C10 C11 C12 C13 C14 C15 C16 C17 C18 C19 C20}; do
  start=$(date +%s)
  bin/bwmc $id --tier thorough > out-$id.log 2>&1; code=$?
  echo "$id exit=$code wall=$(( $(date +%s) - start ))s $(grep -c '^VIOLATION' out-$id.log) violations; $(tail -1 out-$id.log | cut -c1-160)"
  grep '^VIOLATION\|^MACHINERY' out-$id.log | head -5
done
